"""CLI: python -m pv.runner <ID> quick|thorough   |   <ID> --replay <file>

exit 0  property held on everything explored (KNOWN-FINDING lines for listed findings)
exit 1  after 'VIOLATION property=<id> replay=<path>'
exit 2  harness error / inconclusive (never reported as a violation)
"""
from __future__ import annotations

import glob
import re
import importlib
import itertools
import json
import os
import sys
import time
import traceback
import zlib

from . import harness as H
from .harness import Stats, Violation


_NUMLIST = re.compile(r"\[\s+((?:[-\w.+\"]+,\s+)*[-\w.+\"]+)\s+\]")


def load_known(prop):
    path = os.path.join(H.VERIF, "known_findings.json")
    if not os.path.exists(path):
        return []
    with open(path) as f:
        data = json.load(f)
    return [e for e in data.get("findings", []) if e.get("property") == prop]


def standard_worker(mod, tier, seed):
    def worker(i, n):
        H.boot(serial_pool=getattr(mod, "SERIAL_POOL", True))
        H.fresh_aggregator_locks()
        H.limit_memory()
        if hasattr(mod, "prepare"):
            mod.prepare(tier)
        if hasattr(mod, "on_worker_start"):
            mod.on_worker_start(i)
        stats = Stats()
        viol = None
        exhaustive = {}
        if hasattr(mod, "enumerations"):
            for name, gen in mod.enumerations(tier):
                cnt = 0
                cases = itertools.islice(gen, i, None, n)

                def counted(cs):
                    nonlocal cnt
                    for c in cs:
                        cnt += 1
                        yield c

                viol = H.enum_search(mod.check, counted(cases), stats)
                exhaustive[name] = cnt
                if viol:
                    break
        if viol is None:
            for name, strat, nex in mod.searches(tier):
                s = (seed * 64 + i) * 1000003 + zlib.crc32(name.encode())
                viol = H.hyp_search(
                    mod.check, strat, nex, s, stats,
                    shrink=getattr(mod, "SHRINK", {}).get(tier, True),
                )
                if viol:
                    break
        return stats, viol, exhaustive

    return worker


def run_property(prop: str, tier: str, seed: int):
    mod = importlib.import_module(f"pv.props.{prop.lower()}")
    t0 = time.time()
    known = load_known(prop)
    H.KNOWN = {e["signature"] for e in known if e.get("status") == "known"}
    H.boot(serial_pool=getattr(mod, "SERIAL_POOL", True))
    if hasattr(mod, "prepare"):
        mod.prepare(tier)
    out_lines = []
    violation = None
    reg_stats = Stats()

    # 1. regression replays (plain, no Hypothesis)
    known_files = {e.get("regression"): e for e in known if e.get("status") == "known"}
    n_reg = 0
    for path in sorted(glob.glob(os.path.join(H.VERIF, "regressions", prop, "*.json"))):
        rel = os.path.relpath(path, H.VERIF)
        case, _ = H.load_replay(path)
        n_reg += 1
        try:
            H.REPLAYING = True
            H.guarded(mod.check)(case, reg_stats)
        except Violation as v:
            if rel in known_files:
                out_lines.append(f"KNOWN-FINDING: property={prop} {known_files[rel]['what']}")
            else:
                violation = (rel, v.message)
                break
        finally:
            H.REPLAYING = False

    # 2. generated / enumerated search
    total = Stats()
    exhaustive = {}
    if violation is None:
        if hasattr(mod, "run"):
            total, viol, exhaustive = mod.run(tier, seed)
        else:
            results = H.run_sharded(
                standard_worker(mod, tier, seed),
                timeout_s=getattr(mod, "TIMEOUT", {"quick": 900, "thorough": 6 * 3600})[tier],
                partial_ok=lambda r: r[1] is not None,
            )
            viol = None
            for st, v, ex in results:
                total.merge(st)
                for k, c in ex.items():
                    exhaustive[k] = exhaustive.get(k, 0) + c
                if v is not None and viol is None:
                    viol = v
        if viol is None and hasattr(mod, "post_phase"):
            viol = mod.post_phase(tier, seed, total)
        if viol is not None:
            case, msg, sig = viol
            path = H.write_replay(prop, case, msg)
            violation = (os.path.relpath(path, H.VERIF), msg)
    total.merge(reg_stats)

    wall = time.time() - t0
    cov = {
        "evaluations": max(total.evaluations, 0),
        "distinct_nontrivial": len(total.nontrivial),
        "rule": mod.RULE,
        "samples": total.samples,
        "class_histogram": dict(sorted(total.classes.items())),
        "counters": dict(sorted(total.extra.items())),
        "regressions_replayed": n_reg,
        "exhaustive": bool(exhaustive) and getattr(mod, "EXHAUSTIVE_OVERALL", False),
        "exhaustive_subdomains": exhaustive,
        "bounds": getattr(mod, "BOUNDS", {}).get(tier, getattr(mod, "BOUNDS", {})),
        "shards": H.NSHARDS,
    }
    ev = {
        "property_id": prop,
        "tier": tier,
        "seed": seed,
        "level": getattr(mod, "LEVEL", "exploration"),
        "coverage": cov,
        "assumptions": list(getattr(mod, "ASSUMPTIONS", [])) + ([f"{len(H.SHARD_ERRORS)} shard(s) ended with a harness error while another shard found the reported violation"] if H.SHARD_ERRORS and violation else []),
        "wall_s": round(wall, 2),
        "violations": 0 if violation is None else 1,
    }
    if violation is not None:
        ev["violation"] = {"replay": violation[0], "message": violation[1]}
    evdir = os.environ.get("VERIF_EVIDENCE_DIR") or os.path.join(H.VERIF, "evidence")
    os.makedirs(evdir, exist_ok=True)
    text = json.dumps(ev, indent=1, default=H._json_default)
    text = _NUMLIST.sub(lambda m: "[" + re.sub(r"\s+", "", m.group(1)) + "]", text)
    with open(os.path.join(evdir, f"{prop}.json"), "w") as f:
        f.write(text + "\n")
    for line in out_lines:
        print(line)
    print(
        f"{prop} {tier} seed={seed}: evaluations={cov['evaluations']} "
        f"distinct_nontrivial={cov['distinct_nontrivial']} wall={wall:.1f}s"
    )
    if violation is not None:
        print(f"  {violation[1]}")
        print(f"VIOLATION property={prop} replay={violation[0]}")
        return 1
    return 0


def replay(prop: str, path: str):
    mod = importlib.import_module(f"pv.props.{prop.lower()}")
    H.KNOWN = set()
    H.boot(serial_pool=getattr(mod, "SERIAL_POOL", True))
    if hasattr(mod, "prepare"):
        mod.prepare("quick")
    if not os.path.isabs(path):
        path = os.path.join(H.VERIF, path)
    case, msg = H.load_replay(path)
    try:
        H.REPLAYING = True
        H.guarded(mod.check)(case, Stats())
    except Violation as v:
        print(f"  {v.message}")
        print(f"VIOLATION property={prop} replay={os.path.relpath(path, H.VERIF)}")
        return 1
    print(f"{prop} replay {os.path.basename(path)}: property holds on this case")
    return 0


def main(argv):
    if len(argv) < 2:
        print(__doc__)
        return 2
    prop = argv[0].upper()
    try:
        if argv[1] == "--replay":
            return replay(prop, argv[2])
        tier = argv[1]
        if tier not in ("quick", "thorough"):
            tier = os.environ.get("VERIF_TIER", "quick")
        seed = int(os.environ.get("VERIF_SEED", "1") or "1")
        return run_property(prop, tier, seed)
    except Violation as v:  # should not escape
        print("harness error: stray violation", v.message, file=sys.stderr)
        return 2
    except BaseException as e:  # noqa
        if isinstance(e, SystemExit):
            raise
        print("HARNESS-ERROR (inconclusive, not a violation):", file=sys.stderr)
        traceback.print_exc()
        return 2


if __name__ == "__main__":
    rc = main(sys.argv[1:])
    H.cover_dump()
    sys.exit(rc)
