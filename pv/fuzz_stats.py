"""Coverage-guided fuzzing of the statistics loader (C20 thorough tier).

libFuzzer (atheris) drives the *same* Hypothesis table strategy and the *same* oracle as the
generated search, through `test.hypothesis.fuzz_one_input`; only
panoptica.panoptica_statistics is instrumented (pure Python, so coverage feedback exists).

usage: python -m pv.fuzz_stats <replay_out.json> <stats_out.json> [libFuzzer args...]
"""
import json
import os
import sys

import atheris

from pv import harness as H

if sys.path[0] != H.REPO:
    sys.path.insert(0, H.REPO)
os.environ["PANOPTICA_CITATION_REMINDER"] = "false"
with H.quiet():
    with atheris.instrument_imports(include=["panoptica.panoptica_statistics"], enable_loader_override=False):
        import panoptica  # noqa
H.boot()

from hypothesis import HealthCheck, given, settings  # noqa

from pv.props import c20  # noqa

REPLAY, STATS_OUT = sys.argv[1], sys.argv[2]
STATS = H.Stats()


@settings(database=None, deadline=None, suppress_health_check=list(HealthCheck))
@given(c20.table())
def target(case):
    try:
        c20.check(case, STATS)
        if STATS.evaluations % 100 == 0:
            dump()  # libFuzzer leaves through _exit: no atexit, no finally
    except H.Violation as v:
        with open(REPLAY, "w") as f:
            json.dump({"property": "C20", "message": v.message, "case": json.loads(H.canon(case))}, f)
        dump()
        raise


def dump():
    with open(STATS_OUT, "w") as f:
        json.dump({"evaluations": STATS.evaluations, "nontrivial": len(STATS.nontrivial), "classes": dict(STATS.classes),
                   "samples": STATS.samples[:2]}, f)


def main():
    import atexit

    atexit.register(dump)
    atheris.Setup([sys.argv[0]] + sys.argv[3:], target.hypothesis.fuzz_one_input)
    try:
        atheris.Fuzz()
    finally:
        dump()


if __name__ == "__main__":
    main()
