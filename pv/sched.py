"""Cooperative scheduler and crash injection for the aggregator (C16, C17).

The names `open`, `os` (for os.remove) and every module-level lock of
panoptica.panoptica_aggregator (and `open` of panoptica.panoptica_statistics) are rebound,
from outside, to wrappers. Each wrapper call is a *scheduling point*:

* schedule mode (C16): the calling task parks; the controller - the only place where a
  choice is made - resumes exactly one runnable task, chosen by the next integer of the
  generated schedule. Only one task runs at any time, so a run is a deterministic function
  of the schedule. Tasks are threads, or forked processes talking over pipes.
* count mode (C17): the wrapper increments an operation counter and calls os._exit when
  the counter reaches the requested crash point (no atexit, no finally, buffers lost).
"""
from __future__ import annotations

import builtins
import json
import os
import pickle
import queue
import sys
import threading
import traceback


def _cover_dump():
    try:
        from . import harness

        harness.cover_dump()
    except Exception:  # noqa
        pass

REAL_OPEN = builtins.open

# ----------------------------------------------------------------------------- global mode
MODE = None  # None | "schedule" | "count"
CTL = None  # active Controller (schedule mode)
MY_TID = None  # set in forked task processes
_tls = threading.local()

COUNT = 0
CRASH_AT = None
OPLOG = None  # list of (kind, detail) in count mode when logging


def _tid():
    if MY_TID is not None:
        return MY_TID
    return getattr(_tls, "tid", None)


def point(kind, detail=""):
    """A scheduling point / countable operation."""
    global COUNT
    if MODE == "count":
        if CRASH_AT is not None and COUNT == CRASH_AT:
            os._exit(137)
        COUNT += 1
        if OPLOG is not None:
            OPLOG.append((kind, detail))
        return
    if MODE == "schedule" and CTL is not None:
        tid = _tid()
        if tid is not None:
            CTL.park(tid, kind, detail)


# ----------------------------------------------------------------------------- wrappers
class SchedLock:
    def __init__(self, real, name):
        self.real = real
        self.name = name

    def acquire(self, *a, **k):
        timed = (len(a) >= 1 and a[0] is False) or k.get("block") is False or k.get("blocking") is False or \
            (len(a) >= 2 and a[1] is not None) or k.get("timeout") is not None
        if timed and MODE == "schedule" and CTL is not None and _tid() is not None:
            # a non-blocking or timed acquire: under the scheduler the timeout "expires" whenever the lock is held
            # at the moment the task is scheduled (wall-clock time does not exist here)
            point("acquire", self.name)
            if self.real.acquire(False):
                return True
            point("acquire_timed_out", self.name)
            return False
        if MODE == "schedule" and CTL is not None and _tid() is not None:
            # The *real* lock decides who gets in (a lock that is not shared between forked processes, or a
            # lock object replaced by another one, must not be masked by a model of ours): after the grant the
            # task tries without blocking; on failure it parks as 'blocked' until some release of this lock.
            while True:
                point("acquire", self.name)
                if self.real.acquire(False):
                    return True
                point("blocked", self.name)
        point("acquire", self.name)
        return self.real.acquire(*a, **k)

    def release(self):
        point("release", self.name)
        return self.real.release()

    def __enter__(self):
        self.acquire()
        return self

    def __exit__(self, *a):
        self.release()
        return False


class FileProxy:
    """File object whose close is an operation; in schedule mode appending writes are split
    into two flushed halves with a scheduling point in between (torn rows are observable by
    a reader that does not hold the lock)."""

    def __init__(self, f, name, mode):
        self._f = f
        self._name = name
        self._mode = mode

    def write(self, s):
        if MODE == "schedule" and len(s) > 1 and ("a" in self._mode or "w" in self._mode):
            h = len(s) // 2
            self._f.write(s[:h])
            self._f.flush()
            point("midwrite", self._name)
            self._f.write(s[h:])
            self._f.flush()
            return len(s)
        return self._f.write(s)

    def close(self):
        point("close", f"{self._name}:{self._mode}")
        return self._f.close()

    def __enter__(self):
        return self

    def __exit__(self, *a):
        self.close()
        return False

    def __iter__(self):
        return iter(self._f)

    def __getattr__(self, k):
        return getattr(self._f, k)


def sched_open(file, mode="r", *a, **k):
    name = os.path.basename(str(file))
    point("open", f"{name}:{mode}")
    f = REAL_OPEN(file, mode, *a, **k)
    return FileProxy(f, name, mode)


class OsProxy:
    def __init__(self, real):
        self._real = real

    def remove(self, p):
        point("remove", os.path.basename(str(p)))
        return self._real.remove(p)

    def __getattr__(self, k):
        return getattr(self._real, k)


def install():
    """Rebind names in the aggregator / statistics modules (idempotent)."""
    import panoptica.panoptica_aggregator as A
    import panoptica.panoptica_statistics as S

    if not isinstance(getattr(A, "os"), OsProxy):
        A.os = OsProxy(os)
    A.open = sched_open
    S.open = sched_open
    for name, obj in list(vars(A).items()):
        if isinstance(obj, SchedLock):
            continue
        if hasattr(obj, "acquire") and hasattr(obj, "release") and not isinstance(obj, type):
            setattr(A, name, SchedLock(obj, name))
    # locks created later (lazily, per object, per call) must be scheduling points too: wrap the lock factories
    # the module imported by name
    for fname in ("Lock", "RLock"):
        f = getattr(A, fname, None)
        if f is not None and not getattr(f, "_pv_wrapped", False):
            def factory(*a, _f=f, _n=fname, **k):
                LATE_LOCKS[0] += 1
                return SchedLock(_f(*a, **k), f"late_{_n}_{LATE_LOCKS[0]}")
            factory._pv_wrapped = True
            setattr(A, fname, factory)
    # the evaluator shared by the tasks: one scheduling point before every group it evaluates (threads can be switched
    # inside Panoptica_Evaluator.evaluate, where no lock is held); not a countable operation for crash enumeration
    import panoptica.panoptica_evaluator as PE

    orig = PE.Panoptica_Evaluator._evaluate_group
    if not getattr(orig, "_pv_wrapped", False):
        def _evaluate_group(self, *a, _orig=orig, **k):
            if MODE == "schedule":
                point("evaluate_group", "")
            return _orig(self, *a, **k)
        _evaluate_group._pv_wrapped = True
        PE.Panoptica_Evaluator._evaluate_group = _evaluate_group
    return A


LATE_LOCKS = [0]


def reload_aggregator():
    """Fresh module state (new locks) as a new interpreter would have; then install."""
    import importlib

    import panoptica.panoptica_aggregator as A

    importlib.reload(A)
    return install()


# ----------------------------------------------------------------------------- schedules
class Schedule:
    """spec: {'kind': 'choices', 'choices': [...]}  or
             {'kind': 'priority', 'order': [...], 'switch_at': [...]}"""

    def __init__(self, spec):
        self.spec = spec
        self.n = 0
        self.order = list(spec.get("order", []))
        self.switch = set(spec.get("switch_at", []))
        self.current = None

    def choose(self, runnable):
        """runnable: sorted list of task ids. Returns one of them."""
        n = self.n
        self.n += 1
        sp = self.spec
        if sp["kind"] == "prefix":
            # exhaustive exploration: explicit choices, then always the first runnable task; the sizes of
            # the runnable sets are recorded so that the caller can enumerate the alternatives
            ch = sp["choices"]
            self.branching = getattr(self, "branching", [])
            # index 0 = keep running the current task when it is runnable (no preemption)
            cur_in = self.current in runnable
            order = ([self.current] + [t for t in runnable if t != self.current]) if cur_in else list(runnable)
            self.branching.append((len(order), cur_in))
            return order[ch[n]] if n < len(ch) else order[0]
        if sp["kind"] == "choices":
            ch = sp["choices"]
            if n < len(ch):
                return runnable[ch[n] % len(runnable)]
            # exhausted: keep running the current task if possible
            if self.current in runnable:
                return self.current
            return runnable[0]
        # priority with rare preemptions
        for t in runnable:
            if t not in self.order:
                self.order.append(t)
        if n in self.switch and self.current in self.order:
            self.order.remove(self.current)
            self.order.append(self.current)
        for t in self.order:
            if t in runnable:
                return t
        return runnable[0]


# ----------------------------------------------------------------------------- controller
class Deadlock(Exception):
    pass


class Stuck(Exception):
    """Watchdog: inconclusive, never a violation."""


class Controller:
    """Runs task functions under a schedule. mode: 'threads' | 'forks'."""

    def __init__(self, schedule_spec, mode="threads", on_grant=None, scratch=None):
        self.schedule = Schedule(schedule_spec)
        self.mode = mode
        self.on_grant = on_grant  # callback(tid, kind, detail) in the controller, before the grant
        self.scratch = scratch
        self.owner = {}
        self.trace = []
        self.parked = {}
        self.done = {}
        self.preempt_in_window = 0
        self.switches = 0
        self.holding = {}  # tid -> set of lock names
        self.midwrite = set()
        self.waiting = {}  # tid -> (lock name, release count when it failed to acquire)
        self.releases = {}  # lock name -> number of granted releases

    # ---- task side
    def park(self, tid, kind, detail):
        if self.mode == "threads":
            self.req.put(("park", tid, kind, detail))
            self.grants[tid].get()
        else:
            os.write(self.req_w, (json.dumps(["park", tid, kind, detail]) + "\n").encode())
            os.read(self.grant_r[tid], 1)

    # ---- controller side
    def _blocked(self, tid):
        kind, detail = self.parked[tid]
        # a task whose non-blocking acquire failed waits for the next release of that lock
        return kind == "blocked" and self.waiting.get(tid) == (detail, self.releases.get(detail, 0))

    def _recv(self):
        if self.mode == "threads":
            try:
                return self.req.get(timeout=60)
            except queue.Empty:
                raise Stuck("a task did not reach its next scheduling point within 60 s")
        from .harness import wait_readable

        line = b""
        while not line.endswith(b"\n"):
            rl = wait_readable([self.req_r], 60)
            if not rl:
                raise Stuck("a task process did not reach its next scheduling point within 60 s")
            c = os.read(self.req_r, 1)
            if not c:
                raise RuntimeError("request pipe closed")
            line += c
        return tuple(json.loads(line))

    def run(self, fns):
        """fns: {tid: callable}. Returns dict tid -> ('ok', value) | ('exc', text)."""
        global CTL, MODE, MY_TID
        CTL, MODE = self, "schedule"
        tids = sorted(fns)
        if self.mode == "threads":
            self.req = queue.Queue()
            self.grants = {t: queue.Queue() for t in tids}

            def body(t):
                _tls.tid = t
                self.park(t, "start", "")
                try:
                    r = ("ok", fns[t]())
                except BaseException as e:  # noqa
                    r = ("exc", f"{type(e).__name__}: {e}")
                _tls.tid = None
                self.req.put(("done", t, r, None))

            threads = [threading.Thread(target=body, args=(t,), daemon=True) for t in tids]
            for th in threads:
                th.start()
        else:
            self.req_r, self.req_w = os.pipe()
            self.grant_r, self.grant_w = {}, {}
            pids = {}
            for t in tids:
                self.grant_r[t], self.grant_w[t] = os.pipe()
            sys.stdout.flush()
            for t in tids:
                pid = os.fork()
                if pid == 0:
                    MY_TID = t
                    code = 0
                    try:
                        self.park(t, "start", "")
                        try:
                            r = ("ok", fns[t]())
                        except BaseException as e:  # noqa
                            r = ("exc", f"{type(e).__name__}: {e}")
                        with REAL_OPEN(os.path.join(self.scratch, f"result_{t}.pkl"), "wb") as f:
                            pickle.dump(r, f)
                        os.write(self.req_w, (json.dumps(["done", t, None, None]) + "\n").encode())
                    except BaseException:  # noqa
                        code = 3
                    finally:
                        _cover_dump()
                        os._exit(code)
                pids[t] = pid
        try:
            last = None
            inflight = set(tids)  # every task runs up to its 'start' point first
            while True:
                while inflight:
                    msg = self._recv()
                    t = msg[1]
                    if msg[0] == "park":
                        self.parked[t] = (msg[2], msg[3])
                        if msg[2] in ("blocked", "acquire_timed_out"):  # the acquire granted last did not succeed
                            self.holding.setdefault(t, set()).discard(msg[3])
                            if self.owner.get(msg[3]) == t:
                                self.owner[msg[3]] = None
                            if msg[2] == "blocked":
                                self.waiting[t] = (msg[3], self.releases.get(msg[3], 0))
                    else:
                        if self.mode == "threads":
                            self.done[t] = msg[2]
                        else:
                            with REAL_OPEN(os.path.join(self.scratch, f"result_{t}.pkl"), "rb") as f:
                                self.done[t] = pickle.load(f)
                    inflight.discard(t)
                if not self.parked:
                    break
                runnable = sorted(t for t in self.parked if not self._blocked(t))
                if not runnable:
                    raise Deadlock(f"no runnable task: pending {dict(self.parked)}, lock owners {self.owner}, finished {sorted(self.done)}")
                self.schedule.current = last
                t = self.schedule.choose(runnable)
                if last is not None and t != last and last in self.parked:
                    self.switches += 1
                    if self.holding.get(last) or self.parked[last][0] == "midwrite":
                        self.preempt_in_window += 1
                kind, detail = self.parked.pop(t)
                if kind == "acquire":
                    self.owner[detail] = t
                    self.holding.setdefault(t, set()).add(detail)
                elif kind == "release":
                    self.owner[detail] = None
                    self.holding.setdefault(t, set()).discard(detail)
                    self.releases[detail] = self.releases.get(detail, 0) + 1
                self.trace.append((t, kind, detail))
                if self.on_grant:
                    self.on_grant(t, kind, detail)
                last = t
                inflight = {t}
                if self.mode == "threads":
                    self.grants[t].put(1)
                else:
                    os.write(self.grant_w[t], b"g")
        finally:
            CTL, MODE = None, None
            if self.mode == "forks":
                for t, pid in pids.items():
                    try:
                        os.kill(pid, 9)
                    except OSError:
                        pass
                    try:
                        os.waitpid(pid, 0)
                    except OSError:
                        pass
                for fd in [self.req_r, self.req_w] + list(self.grant_r.values()) + list(self.grant_w.values()):
                    try:
                        os.close(fd)
                    except OSError:
                        pass
        return self.done
