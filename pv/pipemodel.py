"""Reference model of the whole documented pipeline (approximate -> match -> evaluate ->
aggregate) on voxel sets, with tie enumeration. Used by C01, C02, C09-C12."""
from __future__ import annotations

import math

import numpy as np

from . import harness as H, refmodel as M

METRICS = ["IOU", "DSC", "ASSD", "RVD"]
TOL = {"IOU": 1e-12, "DSC": 1e-12, "RVD": 1e-12, "ASSD": 1e-9}


def model_instances(arr, input_type, backend):
    """dict id -> frozenset for one side."""
    a = np.asarray(arr)
    if input_type == "SEMANTIC":
        eff = backend or M.default_backend(a.ndim)
        return {i + 1: c for i, c in enumerate(M.cc_partition(a, eff))}
    return M.instances(a)


def expected_results(pred, ref, cfg, metrics=METRICS, assd_exact_ok=True):
    """All results the documented procedure can produce (one per distinct greedy outcome
    under permutation of tied candidates). Returns (list_of_result_dicts, complete, info)."""
    shape = np.asarray(ref).shape
    it = cfg["input"]
    pin = model_instances(pred, it, cfg.get("backend"))
    rin = model_instances(ref, it, cfg.get("backend"))
    info = {"n_pred": len(pin), "n_ref": len(rin), "pin": pin, "rin": rin}
    decision = None
    if cfg.get("decision"):
        decision = (cfg["decision"][0], cfg["decision"][1])
    if it == "MATCHED_INSTANCE":
        assign = frozenset((l, l) for l in pin if l in rin)
        info["cands"] = [(None, l, l) for l in pin if l in rin]
        info["ties"] = False
        outs, complete = {assign}, True
    elif not pin or not rin:
        info["cands"] = []
        info["ties"] = False
        return [M.evaluate_assignment(frozenset(), pin, rin, shape, metrics, decision)], True, info
    else:
        mc = cfg["matcher"]
        cands = M.candidates(pin, rin, mc["metric"], shape)
        info["cands"] = cands
        info["ties"] = M.competing_ties(cands, mc["metric"])
        if mc["kind"] == "naive":
            outs, complete = M.naive_outcomes(cands, mc["metric"], mc["thr"], mc.get("m2o", False))
        else:
            outs, complete = M.merge_outcomes(cands, mc["metric"], mc["thr"], pin, rin, shape)
        eps = M.tie_eps(mc["metric"])
        if eps and any(abs(s - mc["thr"]) <= eps and (s != mc["thr"] or not assd_exact_ok) for s, _, _ in cands):
            complete = False
    info["assignments"] = outs
    res = [M.evaluate_assignment(a, pin, rin, shape, metrics, decision) for a in sorted(outs, key=sorted)]
    if decision is not None and M.tie_eps(decision[0]):
        # a decision score within eps of the threshold is not decidable by the model
        for a in outs:
            groups = {}
            for r, p in a:
                groups.setdefault(r, set()).add(p)
            for r, ps in groups.items():
                P = frozenset().union(*[pin[p] for p in ps])
                v = M.metric_value(decision[0], P, rin[r], shape)
                if abs(v - decision[1]) <= M.tie_eps(decision[0]) and (v != decision[1] or not assd_exact_ok):
                    complete = False
    return res, complete, info


def lib_result(res, metrics=METRICS):
    """Observable values of a PanopticaResult."""
    from panoptica.metrics import Metric, MetricMode

    out = {}
    with H.quiet():
        for k in ("num_ref_instances", "num_pred_instances", "tp", "fp", "fn"):
            out[k] = int(getattr(res, k))
        lists = {}
        for m in metrics:
            try:
                lists[m] = [float(x) for x in res.get_list_metric(Metric[m], MetricMode.ALL)]
            except Exception as e:  # a requested instance metric must be available in every result
                raise H.Violation(f"per-instance list of the requested metric {m} is not available: {type(e).__name__}: {str(e)[:120]}")
        out["lists"] = lists
        want = {"rq"}
        for m_, ks in (("IOU", ("sq", "sq_std", "pq")), ("DSC", ("sq_dsc", "sq_dsc_std", "pq_dsc")), ("ASSD", ("sq_assd", "sq_assd_std")), ("RVD", ("sq_rvd", "sq_rvd_std"))):
            if m_ in metrics:
                want.update(ks)
        for k in ("rq", "sq", "sq_std", "pq", "sq_dsc", "sq_dsc_std", "pq_dsc", "sq_assd", "sq_assd_std", "sq_rvd", "sq_rvd_std"):
            if k not in want:
                continue
            try:
                v = getattr(res, k)
                out[k] = None if v is None else float(v)
            except Exception as e:  # MetricCouldNotBeComputed
                out[k] = f"ERR:{type(e).__name__}"
    return out


def rows_of(lr, metrics=METRICS):
    ls = [lr["lists"][m] for m in metrics]
    if not ls:  # no instance metric requested: one empty tuple per true positive
        return [()] * lr["tp"]
    n = {len(l) for l in ls}
    if len(n) != 1:
        return None
    return list(zip(*ls))


def rows_equal(rows_a, rows_b, metrics=METRICS):
    if len(rows_a) != len(rows_b):
        return False
    used = [False] * len(rows_b)
    for x in sorted(rows_a):
        ok = False
        for j, y in enumerate(rows_b):
            if not used[j] and all(H.same_value(p, q, TOL[m]) for p, q, m in zip(x, y, metrics)):
                used[j] = True
                ok = True
                break
        if not ok:
            return False
    return True


def compare(lr, exp, metrics=METRICS):
    """None if the library result equals the expected result, else a message."""
    for k in ("num_ref_instances", "num_pred_instances", "tp", "fp", "fn"):
        if lr[k] != exp[k]:
            return f"{k}={lr[k]} but the definitions give {exp[k]}"
    rows = rows_of(lr, metrics)
    if rows is None:
        return f"per-TP lists have different lengths: { {m: len(l) for m, l in lr['lists'].items()} }"
    if not rows_equal(rows, exp["rows"], metrics):
        return f"per-TP values {sorted(rows)} differ from the definitions {sorted(exp['rows'])} (order {metrics})"
    tp, fp, fn = exp["tp"], exp["fp"], exp["fn"]
    if tp > 0:
        want_rq = M.rq(tp, fp, fn)
        if not H.same_value(lr["rq"], want_rq, 1e-12):
            return f"rq={lr['rq']!r}, definition gives {want_rq!r}"
        col = {m: [r[i] for r in exp["rows"]] for i, m in enumerate(metrics)}
        names = {"IOU": ("sq", "sq_std", "pq"), "DSC": ("sq_dsc", "sq_dsc_std", "pq_dsc"), "ASSD": ("sq_assd", "sq_assd_std", None), "RVD": ("sq_rvd", "sq_rvd_std", None)}
        for m in metrics:
            a, s, pqn = names[m]
            if not H.same_value(lr[a], M.mean(col[m]), 1e-9):
                return f"{a}={lr[a]!r}, mean of the true-positive {m} values is {M.mean(col[m])!r}"
            if not H.same_value(lr[s], M.pstd(col[m]), 1e-9):
                return f"{s}={lr[s]!r}, population std of the true-positive {m} values is {M.pstd(col[m])!r}"
            if pqn and not H.same_value(lr[pqn], M.mean(col[m]) * want_rq, 1e-9):
                return f"{pqn}={lr[pqn]!r}, sq*rq is {M.mean(col[m]) * want_rq!r}"
    elif exp["num_ref_instances"] + exp["num_pred_instances"] > 0:
        if not H.same_value(lr["rq"], 0.0, 0):
            return f"rq={lr['rq']!r} with tp=0 and instances present (definition gives 0)"
    else:
        # no instance on either side: tp/(tp+fp/2+fn/2) is 0/0, i.e. not a number
        if not (isinstance(lr["rq"], float) and math.isnan(lr["rq"])):
            return f"rq={lr['rq']!r} without any instance: tp/(tp+fp/2+fn/2) is 0/0 (NaN)"
    return None


def decide(lr, exps, complete, metrics=METRICS):
    """Library result must be one of the expected results when the model enumerated all
    outcomes; with one outcome it must be that one. Returns message or None."""
    msgs = [compare(lr, e, metrics) for e in exps]
    if any(m is None for m in msgs):
        return None
    if not complete:
        return None  # tie set too large to enumerate: not decided here
    return msgs[0] if len(exps) == 1 else f"result matches none of the {len(exps)} outcomes allowed by tie-breaking; first mismatch: {msgs[0]}"
