"""Shared harness: repo selection, quiet import, serial pool substitution, 16-way
sharding by fork, case statistics, Hypothesis driving, replay I/O."""
from __future__ import annotations

import contextlib
import hashlib
import io
import json
import math
import os
import pickle
import sys
import time
import traceback
from collections import Counter

VERIF = os.path.dirname(os.path.dirname(os.path.abspath(__file__)))
REPO = os.environ.get("VERIF_REPO", "/repo")
NSHARDS = int(os.environ.get("VERIF_SHARDS", "16"))


class Violation(Exception):
    """The property is violated on `case` (set by the driver)."""

    def __init__(self, message: str, sig: str | None = None):
        super().__init__(message)
        self.message = message
        self.sig = sig  # optional signature used to match known findings


class HarnessError(Exception):
    pass


# ----------------------------------------------------------------------------- boot
_BOOTED = False
_REAL_STDOUT = sys.stdout


@contextlib.contextmanager
def quiet():
    """Silence the library's prints (python level)."""
    old = sys.stdout
    sys.stdout = io.StringIO()
    try:
        yield sys.stdout
    finally:
        sys.stdout = old


class _SerialPool:
    """Order preserving stand-in for multiprocessing.Pool (see DESIGN 2.3)."""

    def __init__(self, *a, **k):
        pass

    def __enter__(self):
        return self

    def __exit__(self, *a):
        return False

    def starmap(self, fn, it):
        return [fn(*args) for args in it]

    def map(self, fn, it):
        return [fn(a) for a in it]

    def imap(self, fn, it, chunksize=1):
        return iter([fn(a) for a in it])

    imap_unordered = imap  # the stand-in is ordered; only the real pool can reorder (C15 compares both)


_REAL_POOLS = {}


def boot(serial_pool: bool = True):
    """Import panoptica from the selected tree, once."""
    global _BOOTED
    if _BOOTED:
        return
    os.environ["PANOPTICA_CITATION_REMINDER"] = "false"
    if sys.path[0] != REPO:
        sys.path.insert(0, REPO)
    import warnings

    warnings.filterwarnings("ignore")
    if os.environ.get("PV_COVER"):
        cover_start()
    with quiet():
        import panoptica  # noqa
        import panoptica._functionals as F
        import panoptica.instance_evaluator as IE
    got = os.path.dirname(os.path.dirname(os.path.abspath(panoptica.__file__)))
    if os.path.realpath(got) != os.path.realpath(REPO):
        raise HarnessError(f"panoptica imported from {got}, expected {REPO}")
    _REAL_POOLS["F"] = F.Pool
    _REAL_POOLS["IE"] = IE.Pool
    if serial_pool:
        F.Pool = _SerialPool
        IE.Pool = _SerialPool
    import numpy as np

    np.seterr(all="ignore")
    _BOOTED = True


_COVER = set()


def cover_start():
    """Development aid (PV_COVER=<dir>): which lines of the library do the checks execute? Uses
    sys.monitoring with per-location disabling, so the cost is one callback per line ever."""
    mon = sys.monitoring
    prefix = os.path.join(REPO, "panoptica")

    def on_line(code, line):
        if code.co_filename.startswith(prefix):
            _COVER.add((code.co_filename[len(REPO) + 1:], line))
        return mon.DISABLE

    mon.use_tool_id(3, "pvcover")
    mon.register_callback(3, mon.events.LINE, on_line)
    mon.set_events(3, mon.events.LINE)


def cover_dump():
    d = os.environ.get("PV_COVER")
    if d and _COVER:
        os.makedirs(d, exist_ok=True)
        name = os.path.join(d, f"{os.getpid()}_{time.time_ns()}.json")
        with open(name + ".tmp", "w") as f:
            json.dump(sorted(_COVER), f)
        os.replace(name + ".tmp", name)


@contextlib.contextmanager
def real_pools():
    import panoptica._functionals as F
    import panoptica.instance_evaluator as IE

    o1, o2 = F.Pool, IE.Pool
    F.Pool, IE.Pool = _REAL_POOLS["F"], _REAL_POOLS["IE"]
    try:
        yield
    finally:
        F.Pool, IE.Pool = o1, o2


def lib_call(fn, *a, **k):
    """Call library code where the property promises a result: an exception is a
    violation (signature = exception type + innermost panoptica frame)."""
    try:
        with quiet():
            return fn(*a, **k)
    except Violation:
        raise
    except Exception as e:  # noqa
        tb = traceback.extract_tb(e.__traceback__)
        frame = None
        for fr in tb:
            if "/panoptica/" in fr.filename:
                frame = fr
        where = f"{os.path.basename(frame.filename)}:{frame.name}" if frame else "?"
        raise Violation(
            f"library raised {type(e).__name__} at {where}: {str(e)[:200]}",
            sig=f"raise:{type(e).__name__}@{where}",
        )


def guarded(check):
    """Safety net around a property check: an exception that escapes from *library* code called by the
    harness (some panoptica frame after the last harness frame in the traceback) is a violation - every
    check feeds valid inputs only and every property implies that the call completes; an exception raised
    by the harness' own code stays a harness error (exit 2)."""

    def wrapped(case, stats):
        try:
            return check(case, stats)
        except (Violation, HarnessError):
            raise
        except Exception as e:  # noqa
            if type(e).__module__.startswith("hypothesis"):
                raise
            frames = traceback.extract_tb(e.__traceback__)
            last_pv = max((i for i, fr in enumerate(frames) if "/pv/" in fr.filename and "/panoptica/" not in fr.filename), default=-1)
            lib = [fr for fr in frames[last_pv + 1:] if "/panoptica/" in fr.filename]
            if lib:
                fr = lib[-1]
                where = f"{os.path.basename(fr.filename)}:{fr.name}"
                raise Violation(f"library raised {type(e).__name__} at {where}: {str(e)[:200]}", sig=f"raise:{type(e).__name__}@{where}")
            raise

    return wrapped


# ----------------------------------------------------------------------------- stats
def canon(obj) -> str:
    return json.dumps(obj, sort_keys=True, default=_json_default, separators=(",", ":"))


def _json_default(o):
    import numpy as np

    if isinstance(o, np.ndarray):
        return {"__nd__": o.tolist(), "dtype": str(o.dtype)}
    if isinstance(o, (np.integer,)):
        return int(o)
    if isinstance(o, (np.floating,)):
        return float(o)
    if isinstance(o, (np.bool_,)):
        return bool(o)
    if isinstance(o, (set, frozenset)):
        return sorted(o)
    if isinstance(o, tuple):
        return list(o)
    return repr(o)


class Stats:
    MAX_SAMPLES = 4

    def __init__(self):
        self.evaluations = 0
        self.nontrivial: set[bytes] = set()
        self.classes: Counter = Counter()
        self.samples: list = []
        self.extra: Counter = Counter()

    def record(self, case, nontrivial: bool, classes=()):
        self.evaluations += 1
        for c in classes:
            self.classes[c] += 1
        if nontrivial:
            h = hashlib.blake2b(canon(case).encode(), digest_size=8).digest()
            if h not in self.nontrivial:
                self.nontrivial.add(h)
                if len(self.samples) < self.MAX_SAMPLES:
                    self.samples.append(json.loads(canon(case)))

    def count(self, key, n=1):
        self.extra[key] += n

    def merge(self, other: "Stats"):
        self.evaluations += other.evaluations
        self.nontrivial |= other.nontrivial
        self.classes.update(other.classes)
        self.extra.update(other.extra)
        for s in other.samples:
            if len(self.samples) < self.MAX_SAMPLES:
                self.samples.append(s)


# ----------------------------------------------------------------------------- hypothesis driver
def hyp_search(check, strategy, n_examples: int, seed: int, stats: Stats, shrink=True):
    """Run `check(case, stats)` on `n_examples` generated cases. Returns None or
    (minimal_case, message, sig)."""
    import hypothesis
    from hypothesis import HealthCheck, Phase, given, settings

    last = {}
    phases = [Phase.generate] + ([Phase.shrink] if shrink else [])
    check = guarded(check)

    @hypothesis.seed(seed)
    @settings(
        max_examples=n_examples,
        database=None,
        deadline=None,
        derandomize=False,
        report_multiple_bugs=False,
        suppress_health_check=list(HealthCheck),
        phases=phases,
        print_blob=False,
        verbosity=hypothesis.Verbosity.quiet,
    )
    @given(strategy)
    def run(case):
        try:
            check(case, stats)
        except Violation as v:
            last["v"] = (json.loads(canon(case)), v.message, v.sig)
            raise

    try:
        run()
    except Violation:
        return last["v"]
    except BaseException as e:
        # a Violation wrapped by hypothesis (e.g. flaky) still counts through `last`
        if isinstance(e, (KeyboardInterrupt, SystemExit)):
            raise
        name = type(e).__name__
        if name in ("Flaky", "FlakyFailure") and "v" in last:
            return last["v"]
        raise
    return None


def enum_search(check, cases, stats: Stats):
    """Exhaustive driver: first failure returned (cases are already minimal-ish)."""
    check = guarded(check)
    for case in cases:
        try:
            check(case, stats)
        except Violation as v:
            # a check that explores many sub-cases itself may attach the concrete failing sub-case
            return (json.loads(canon(getattr(v, "case", None) or case)), v.message, v.sig)
    return None


# ----------------------------------------------------------------------------- sharding
SHARD_ERRORS: list = []


def run_sharded(worker, nshards: int = None, timeout_s: float = 3600.0, partial_ok=None):
    """Fork `nshards` children; child i runs worker(i, nshards) -> picklable.
    Returns list of results (index order). Raises HarnessError on child failure - unless `partial_ok(result)` holds
    for the result of some shard that did finish (a shard that found a violation: a concrete failing case stands on
    its own, whatever happened to the other shards); then the results of the finished shards are returned and the
    errors are left in SHARD_ERRORS."""
    nshards = nshards or NSHARDS
    sys.stdout.flush()
    sys.stderr.flush()
    children = []
    for i in range(nshards):
        r, w = os.pipe()
        pid = os.fork()
        if pid == 0:
            os.close(r)
            code = 0
            try:
                sys.stdout = open(os.devnull, "w")
                res = ("ok", worker(i, nshards))
            except BaseException as e:  # noqa
                res = ("err", "".join(traceback.format_exception(e))[-4000:])
                code = 3
            try:
                cover_dump()
                with os.fdopen(w, "wb") as f:
                    pickle.dump(res, f)
            finally:
                os._exit(code)
        os.close(w)
        children.append((pid, r))
    results = []
    errors = []
    deadline = time.time() + timeout_s
    import select

    bufs = {r: b"" for _, r in children}
    open_fds = set(bufs)
    while open_fds:
        left = deadline - time.time()
        if left <= 0:
            # kill what is still running; shards that have delivered a result keep it
            for pid, r in children:
                if r in open_fds:
                    try:
                        os.kill(pid, 9)
                    except OSError:
                        pass
                    os.close(r)
                    bufs[r] = pickle.dumps(("err", "watchdog: shard timeout (inconclusive)"))
            open_fds.clear()
            break
        rl = wait_readable(list(open_fds), min(left, 5.0))
        for fd in rl:
            chunk = os.read(fd, 1 << 20)
            if chunk:
                bufs[fd] += chunk
            else:
                open_fds.discard(fd)
                os.close(fd)
    for pid, r in children:
        os.waitpid(pid, 0)
        try:
            kind, val = pickle.loads(bufs[r])
        except Exception:
            kind, val = "err", "child died without result"
        if kind == "ok":
            results.append(val)
        else:
            errors.append(val)
            results.append(None)
    SHARD_ERRORS[:] = errors
    if errors and not (partial_ok and any(r is not None and partial_ok(r) for r in results)):
        raise HarnessError("shard failed:\n" + errors[0])
    return [r for r in results if r is not None] if errors else results


# ----------------------------------------------------------------------------- replay files
def write_replay(prop: str, case, message: str, tag: str = "") -> str:
    d = os.path.join(VERIF, "replays", prop)
    os.makedirs(d, exist_ok=True)
    h = hashlib.blake2b(canon(case).encode(), digest_size=6).hexdigest()
    path = os.path.join(d, f"{prop}_{tag}{h}.json")
    with open(path, "w") as f:
        json.dump({"property": prop, "message": message, "case": case}, f, indent=1, default=_json_default)
    return path


def load_replay(path: str):
    with open(path) as f:
        d = json.load(f)
    return d["case"], d.get("message", "")


# ----------------------------------------------------------------------------- comparators
def wait_readable(fds, timeout_s):
    """select() without its FD_SETSIZE limit (a tree that leaks descriptors must not break the harness)."""
    import select

    po = select.poll()
    for fd in fds:
        po.register(fd, select.POLLIN | select.POLLHUP)
    return [fd for fd, _ in po.poll(max(0, timeout_s) * 1000)]


def same_value(a, b, tol=1e-9) -> bool:
    """NaN==NaN, None==None, inf by sign, numbers within abs/rel tol."""
    if a is None or b is None:
        return a is None and b is None
    try:
        fa, fb = float(a), float(b)
    except (TypeError, ValueError):
        return a == b
    if math.isnan(fa) or math.isnan(fb):
        return math.isnan(fa) and math.isnan(fb)
    if math.isinf(fa) or math.isinf(fb):
        return fa == fb
    return abs(fa - fb) <= tol * max(1.0, abs(fa), abs(fb))


def same_multiset(xs, ys, tol=1e-9) -> bool:
    """Multisets of tuples/floats equal up to tolerance (greedy after sort)."""
    if len(xs) != len(ys):
        return False
    def key(t):
        return tuple(t) if isinstance(t, (tuple, list)) else (t,)
    xs = sorted((key(x) for x in xs))
    ys = sorted((key(y) for y in ys))
    used = [False] * len(ys)
    for x in xs:
        ok = False
        for j, y in enumerate(ys):
            if not used[j] and len(x) == len(y) and all(same_value(p, q, tol) for p, q in zip(x, y)):
                used[j] = True
                ok = True
                break
        if not ok:
            return False
    return True


# set by the runner
KNOWN: set = set()  # signatures of findings listed as 'known' for the running property
REPLAYING = False


def is_known(sig: str) -> bool:
    return sig in KNOWN


def fresh_aggregator_locks():
    """The aggregator's module-level multiprocessing locks are inherited by every forked
    shard worker; re-executing the module gives this process its own locks (as a separate
    interpreter would have), so shards do not contend - or, under the cooperative scheduler,
    deadlock - with each other."""
    import importlib

    import panoptica.panoptica_aggregator as A

    from . import sched

    wrapped = isinstance(getattr(A, "os", None), sched.OsProxy)
    with quiet():
        importlib.reload(A)
    if wrapped:
        sched.install()


def limit_memory(gib: float = 8.0):
    """Cap the address space of a shard worker: a runaway allocation in a broken tree (e.g. a lookup
    table sized by a corrupted label) becomes a MemoryError inside the library call - which the checks
    report like any other exception - instead of exhausting the sandbox."""
    import resource

    lim = int(gib * (1 << 30))
    try:
        resource.setrlimit(resource.RLIMIT_AS, (lim, lim))
    except (ValueError, OSError):
        pass
