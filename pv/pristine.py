"""Pristine baselines for C15: a server process forked right after import, before any
panoptica object exists, forks one grandchild per request; the grandchild computes the
result with no history at all and dies."""
from __future__ import annotations

import os
import pickle
import struct
import sys
import traceback


class PristineServer:
    def __init__(self, handler):
        """handler(req) -> picklable; executed in a fresh grandchild for every request."""
        p2c_r, p2c_w = os.pipe()
        c2p_r, c2p_w = os.pipe()
        sys.stdout.flush()
        pid = os.fork()
        if pid == 0:
            os.close(p2c_w)
            os.close(c2p_r)
            try:
                sys.stdout = open(os.devnull, "w")
                self._serve(handler, p2c_r, c2p_w)
            finally:
                os._exit(0)
        os.close(p2c_r)
        os.close(c2p_w)
        self.pid = pid
        self.w = p2c_w
        self.r = c2p_r

    @staticmethod
    def _read_exact(fd, n):
        buf = b""
        while len(buf) < n:
            chunk = os.read(fd, n - len(buf))
            if not chunk:
                raise EOFError
            buf += chunk
        return buf

    @classmethod
    def _recv(cls, fd):
        (n,) = struct.unpack("<Q", cls._read_exact(fd, 8))
        return cls._read_exact(fd, n)

    @staticmethod
    def _send(fd, data: bytes):
        os.write(fd, struct.pack("<Q", len(data)))
        off = 0
        while off < len(data):
            off += os.write(fd, data[off:off + (1 << 16)])

    def _serve(self, handler, rfd, wfd):
        while True:
            try:
                data = self._recv(rfd)
            except EOFError:
                return
            req = pickle.loads(data)
            if req is None:
                return
            gr, gw = os.pipe()
            gpid = os.fork()
            if gpid == 0:
                os.close(gr)
                try:
                    res = ("ok", handler(req))
                except BaseException as e:  # noqa
                    res = ("err", f"{type(e).__name__}: {e}\n" + "".join(traceback.format_exception(e))[-1500:])
                try:
                    out = pickle.dumps(res)
                    off = 0
                    while off < len(out):
                        off += os.write(gw, out[off:off + (1 << 16)])
                finally:
                    os._exit(0)
            os.close(gw)
            chunks = []
            while True:
                c = os.read(gr, 1 << 16)
                if not c:
                    break
                chunks.append(c)
            os.close(gr)
            os.waitpid(gpid, 0)
            self._send(wfd, b"".join(chunks))

    def request(self, req):
        self._send(self.w, pickle.dumps(req))
        kind, val = pickle.loads(self._recv(self.r))
        return kind, val

    def close(self):
        try:
            self._send(self.w, pickle.dumps(None))
            os.close(self.w)
            os.close(self.r)
            os.waitpid(self.pid, 0)
        except Exception:
            pass
