"""Helpers for the metamorphic properties (C09-C12): observe a result completely and
compare two observations with the comparators of DESIGN section 3."""
from __future__ import annotations

import numpy as np

from . import harness as H, pipemodel as PM

TIE_FREE_KEYS = ("num_ref_instances",)


def observe(res, metrics=PM.METRICS):
    from panoptica.metrics import Metric, MetricMode

    with H.quiet():
        d = {}
        for k, v in res.to_dict().items():
            if isinstance(v, (np.floating, np.integer)):
                v = v.item()
            d[k] = v
        lists = {}
        for m in metrics:
            try:
                lists[m] = [float(x) for x in res.get_list_metric(Metric[m], MetricMode.ALL)]
            except Exception:
                pass
    d.pop("computation_time", None)
    return {"dict": d, "lists": lists}


def rows(ob, metrics):
    ls = [ob["lists"][m] for m in metrics if m in ob["lists"]]
    if len({len(l) for l in ls}) > 1:
        return None
    return sorted(zip(*ls)) if ls else []


def tol_for(key):
    k = key.lower()
    if "assd" in k:
        return 1e-9
    return 1e-12 if ("std" not in k and "sq" not in k and "pq" not in k) else 1e-9


def diff(a, b, only=None, rvd_map=None):
    """Message describing the first difference between two observations, or None."""
    da, db = a["dict"], b["dict"]
    keys = sorted(set(da) | set(db))
    for k in keys:
        if only is not None and k not in only:
            continue
        if (k in da) != (k in db):
            return f"metric {k} reported on one side only ({da.get(k, '<absent>')!r} vs {db.get(k, '<absent>')!r})"
        if not H.same_value(da[k], db[k], tol_for(k)):
            return f"{k}: {da[k]!r} vs {db[k]!r}"
    if only is None:
        ms = [m for m in PM.METRICS if m in a["lists"] and m in b["lists"]]
        ra, rb = rows(a, ms), rows(b, ms)
        if ra is None or rb is None:
            return "per-TP lists of unequal length"
        if not PM.rows_equal(ra, rb, ms):
            return f"per-TP values differ: {ra} vs {rb} (order {ms})"
    return None
