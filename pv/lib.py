"""Builders: JSON config dicts -> panoptica objects (imported lazily after boot)."""
from __future__ import annotations

import numpy as np

from . import harness as H


def P():
    import panoptica

    return panoptica


def metric(name):
    from panoptica.metrics import Metric

    return Metric[name]


def input_type(name):
    from panoptica import InputType

    return InputType[name]


def backend(name):
    from panoptica.utils.constants import CCABackend

    return None if name is None else CCABackend[name]


def approximator(bk):
    from panoptica import ConnectedComponentsInstanceApproximator

    return ConnectedComponentsInstanceApproximator(cca_backend=backend(bk))


def matcher(cfg):
    """cfg: {'kind': 'naive'|'merge', 'metric':..., 'thr':..., 'm2o': bool}"""
    from panoptica.instance_matcher import MaximizeMergeMatching, NaiveThresholdMatching

    if cfg is None:
        return None
    if cfg["kind"] == "naive":
        if cfg.get("m2o") is None:  # constructor default (documented: one-to-one)
            return NaiveThresholdMatching(matching_metric=metric(cfg["metric"]), matching_threshold=cfg["thr"])
        return NaiveThresholdMatching(
            matching_metric=metric(cfg["metric"]),
            matching_threshold=cfg["thr"],
            allow_many_to_one=bool(cfg["m2o"]),
        )
    return MaximizeMergeMatching(matching_metric=metric(cfg["metric"]), matching_threshold=cfg["thr"])


def edge_result(name):
    from panoptica.utils.edge_case_handling import EdgeCaseResult

    return EdgeCaseResult[name]


EDGE_VALUES = {"INF": float("inf"), "NAN": float("nan"), "ZERO": 0.0, "ONE": 1.0, "NONE": None}
SCENARIOS = ["NO_INSTANCES", "EMPTY_PRED", "EMPTY_REF", "NORMAL"]


def handler(cfg):
    """cfg: None (library default) or {'std': name, 'metrics': {M: [no_inst, empty_pred,
    empty_ref, normal]}, 'via_default': {M: [default, [explicit?]*4]}}"""
    from panoptica.utils.edge_case_handling import EdgeCaseHandler, MetricZeroTPEdgeCaseHandling

    if cfg is None:
        return None
    d = {}
    for m, vals in cfg["metrics"].items():
        if m in cfg.get("via_default", {}):
            # default_result plus explicit values for some scenarios only
            default, explicit = cfg["via_default"][m]
            kw = {k: edge_result(v) for k, v, e in zip(("no_instances_result", "empty_prediction_result", "empty_reference_result", "normal"), vals, explicit) if e}
            d[metric(m)] = MetricZeroTPEdgeCaseHandling(default_result=edge_result(default), **kw)
            continue
        d[metric(m)] = MetricZeroTPEdgeCaseHandling(
            no_instances_result=edge_result(vals[0]),
            empty_prediction_result=edge_result(vals[1]),
            empty_reference_result=edge_result(vals[2]),
            normal=edge_result(vals[3]),
        )
    return EdgeCaseHandler(listmetric_zeroTP_handling=d, empty_list_std=edge_result(cfg["std"]))


def groups(cfg):
    """cfg: None or list of {'name','labels','kind': 'plain'|'merge'|'single'}"""
    from panoptica.utils.label_group import LabelGroup, LabelMergeGroup
    from panoptica.utils.segmentation_class import SegmentationClassGroups

    if cfg is None:
        return None
    d = {}
    for g in cfg:
        if g.get("form") == "tuple":
            d[g["name"]] = (list(g["labels"]), g["kind"] == "single")
        elif g.get("form") == "tuple_scalar":
            d[g["name"]] = (g["labels"][0], g["kind"] == "single")
        elif g["kind"] == "merge":
            d[g["name"]] = LabelMergeGroup(list(g["labels"]), single_instance=False)
        elif g["kind"] == "merge_single":
            d[g["name"]] = LabelMergeGroup(list(g["labels"]), single_instance=True)
        elif g["kind"] == "single":
            d[g["name"]] = LabelGroup(list(g["labels"]), single_instance=True)
        else:
            d[g["name"]] = LabelGroup(list(g["labels"]), single_instance=False)
    return SegmentationClassGroups(d)


def evaluator(cfg):
    """cfg keys: input, backend (for SEMANTIC), matcher, handler, groups, imetrics,
    gmetrics, decision: None|[metric, thr], flags: {save_group_times, log_times, verbose}"""
    from panoptica import Panoptica_Evaluator

    kw = {}
    flags = cfg.get("flags") or {}
    for k in ("save_group_times", "log_times", "verbose"):
        if k in flags:
            kw[k] = flags[k]
    if cfg.get("imetrics") is not None:
        kw["instance_metrics"] = [metric(m) for m in cfg["imetrics"]]
    if cfg.get("gmetrics") is not None:
        kw["global_metrics"] = [metric(m) for m in cfg["gmetrics"]]
    dec = cfg.get("decision")
    if dec:
        kw["decision_metric"] = metric(dec[0])
        kw["decision_threshold"] = dec[1]
    inp = cfg["input"]
    return Panoptica_Evaluator(
        expected_input=input_type(inp),
        instance_approximator=approximator(cfg.get("backend")) if inp == "SEMANTIC" or cfg.get("force_approx") else None,
        instance_matcher=matcher(cfg.get("matcher")) if inp != "MATCHED_INSTANCE" or cfg.get("force_matcher") else None,
        edge_case_handler=handler(cfg.get("handler")),
        segmentation_class_groups=groups(cfg.get("groups")),
        **kw,
    )


def arr(x, dtype="uint8"):
    return np.array(x, dtype=dtype)


def result_dict(res):
    """to_dict() plus list metrics of a PanopticaResult, plain python."""
    from panoptica.metrics import Metric, MetricMode

    with H.quiet():
        d = dict(res.to_dict())
    out = {}
    for k, v in d.items():
        if isinstance(v, (np.floating, np.integer)):
            v = v.item()
        out[k] = v
    lists = {}
    for m in Metric:
        try:
            l = res.get_list_metric(m, MetricMode.ALL)
        except Exception:
            continue
        if l is not None:
            lists[m.name] = [float(x) for x in l]
    return out, lists


_SNAP_CACHE = {}


def assd_snap(P, R, shape, model_value):
    """Library's float for ASSD(P, R) on a `shape` array (verified against the model)."""
    from panoptica.metrics import Metric

    key = (P, R, tuple(shape))
    if key in _SNAP_CACHE:
        return _SNAP_CACHE[key]
    rm = np.zeros(shape, dtype=bool)
    pm = np.zeros(shape, dtype=bool)
    for c in R:
        rm[c] = True
    for c in P:
        pm[c] = True
    v = float(H.lib_call(Metric.ASSD, rm, pm))
    if not H.same_value(v, model_value, 1e-9):
        raise H.Violation(f"ASSD of a candidate pair is {v!r}, brute force gives {model_value!r}")
    if len(_SNAP_CACHE) > 20000:
        _SNAP_CACHE.clear()
    _SNAP_CACHE[key] = v
    return v


def install_assd_snap():
    from . import refmodel

    refmodel.ASSD_SNAP = assd_snap


# ----------------------------------------------------------------------------- priming
# Before the action a check is about, it may first use *other* panoptica objects (other
# configuration, other dimensionality). On a tree without hidden state this changes nothing;
# a cache, a mutated default argument or a value stored on a shared object shows up in the
# main action, inside one replayable case.
PRIMES = {
    "semantic2d": ({"input": "SEMANTIC", "backend": None, "matcher": {"kind": "naive", "metric": "IOU", "thr": 0.5}}, [[1, 0, 0], [0, 1, 0], [0, 0, 2]], [[1, 0, 0], [0, 1, 0], [0, 2, 2]]),
    "semantic3d": ({"input": "SEMANTIC", "backend": None, "matcher": {"kind": "naive", "metric": "DSC", "thr": 0.25, "m2o": True}},
                   [[[1, 0], [0, 1]], [[0, 0], [0, 0]]], [[[1, 0], [0, 0]], [[0, 0], [0, 1]]]),
    "merge_assd": ({"input": "UNMATCHED_INSTANCE", "matcher": {"kind": "merge", "metric": "ASSD", "thr": 2.0}, "imetrics": ["ASSD", "RVD"], "gmetrics": []},
                   [1, 1, 1, 2, 2, 0, 3], [1, 1, 1, 1, 1, 0, 0]),
    "matched_decision": ({"input": "MATCHED_INSTANCE", "decision": ["IOU", 0.9], "imetrics": ["DSC", "IOU"], "gmetrics": ["DSC", "IOU", "RVD"]},
                         [1, 1, 0, 2, 2, 2], [1, 1, 1, 2, 2, 2]),
    "groups_single": ({"input": "SEMANTIC", "backend": "scipy", "matcher": {"kind": "naive", "metric": "IOU", "thr": 0.5}, "decision": ["DSC", 0.7],
                       "groups": [{"name": "a", "labels": [1], "kind": "single"}, {"name": "b", "labels": [2, 3], "kind": "merge"}]},
                      [1, 1, 0, 2, 3, 0, 0], [1, 0, 0, 2, 2, 3, 0]),
    "handler_ones": ({"input": "UNMATCHED_INSTANCE", "matcher": {"kind": "naive", "metric": "IOU", "thr": 0.5}, "imetrics": ["DSC"], "gmetrics": ["DSC"],
                      "handler": {"std": "ONE", "metrics": {"DSC": ["ONE", "ONE", "ONE", "ONE"]}}}, [0, 0, 0], [1, 1, 0]),
}


# The constructor defaults of EdgeCaseHandler (order: NO_INSTANCES, EMPTY_PRED, EMPTY_REF, NORMAL); std NAN.
DEFAULT_HANDLER = {
    "std": "NAN",
    "metrics": {
        "DSC": ["NAN", "ZERO", "ZERO", "ZERO"],
        "clDSC": ["NAN", "ZERO", "ZERO", "ZERO"],
        "IOU": ["NAN", "ZERO", "ZERO", "ZERO"],
        "ASSD": ["NAN", "INF", "INF", "INF"],
        "RVD": ["NAN", "NAN", "NAN", "NAN"],
    },
}
PRIMES["handler_custom_all"] = ({"input": "MATCHED_INSTANCE", "imetrics": ["DSC", "IOU", "ASSD", "RVD"], "gmetrics": ["DSC", "IOU", "ASSD", "RVD"],
                                 "handler": {"std": "ZERO", "metrics": {m: ["ONE", "INF", "ONE", "INF"] for m in ("DSC", "IOU", "ASSD", "RVD", "clDSC")}}},
                                [0, 0, 0], [1, 1, 0])


def run_primes(names):
    for nm in names or []:
        cfg, p, r = PRIMES[nm]
        try:
            with H.quiet():
                ev = evaluator(cfg)
                ev.evaluate(np.array(p, dtype=np.uint8), np.array(r, dtype=np.uint8))
                ev.resulting_metric_keys
        except Exception:
            pass  # not this case's business
