"""Independent reference model (DESIGN section 3). Pure Python over voxel coordinate
sets; shares no code with panoptica, scipy.ndimage or cc3d. numpy is used only to walk
an input array into coordinate sets."""
from __future__ import annotations

import itertools
import math
from collections import deque

import numpy as np


# ----------------------------------------------------------------------------- sets
def instances(arr) -> dict[int, frozenset]:
    """{label: frozenset(coords)} for the non-zero labels of an integer array."""
    out: dict[int, set] = {}
    a = np.asarray(arr)
    for idx in zip(*np.nonzero(a)):
        idx = tuple(int(i) for i in idx)
        out.setdefault(int(a[idx]), set()).add(idx)
    return {k: frozenset(v) for k, v in out.items()}


def foreground(arr) -> frozenset:
    a = np.asarray(arr)
    return frozenset(tuple(int(i) for i in idx) for idx in zip(*np.nonzero(a)))


def offsets(ndim: int, full: bool):
    offs = []
    for d in itertools.product((-1, 0, 1), repeat=ndim):
        nz = sum(1 for x in d if x != 0)
        if nz == 0:
            continue
        if full or nz == 1:
            offs.append(d)
    return offs


def components(fg: frozenset, ndim: int, full: bool, label_of=None) -> list[frozenset]:
    """Connected components of `fg` (BFS). If label_of is given, two voxels are joined
    only when their labels are equal."""
    offs = offsets(ndim, full)
    seen = set()
    comps = []
    for start in sorted(fg):
        if start in seen:
            continue
        seen.add(start)
        comp = {start}
        dq = deque([start])
        while dq:
            c = dq.popleft()
            for d in offs:
                nb = tuple(ci + di for ci, di in zip(c, d))
                if nb in fg and nb not in seen:
                    if label_of is not None and label_of[nb] != label_of[c]:
                        continue
                    seen.add(nb)
                    comp.add(nb)
                    dq.append(nb)
        comps.append(frozenset(comp))
    return comps


def cc_partition(arr, backend: str) -> list[frozenset]:
    """Documented behaviour: 'scipy' = face connectivity on the non-zero mask;
    'cc3d' = full connectivity, never joining different labels."""
    a = np.asarray(arr)
    fg = foreground(a)
    if backend == "scipy":
        return components(fg, a.ndim, full=False)
    if backend == "cc3d":
        lab = {c: int(a[c]) for c in fg}
        return components(fg, a.ndim, full=True, label_of=lab)
    raise ValueError(backend)


def default_backend(ndim: int) -> str:
    return "cc3d" if ndim >= 3 else "scipy"


# ----------------------------------------------------------------------------- metrics
def iou(X, Y):
    u = len(X | Y)
    return len(X & Y) / u  # caller guarantees u > 0


def dice(X, Y):
    return 2 * len(X & Y) / (len(X) + len(Y))


def rvd(P, R):
    return (len(P) - len(R)) / len(R)


def border(X: frozenset, shape) -> frozenset:
    """Foreground voxels with a background or out-of-array face neighbour."""
    nd = len(shape)
    out = set()
    for c in X:
        for ax in range(nd):
            for s in (-1, 1):
                nb = c[:ax] + (c[ax] + s,) + c[ax + 1:]
                if nb[ax] < 0 or nb[ax] >= shape[ax] or nb not in X:
                    out.add(c)
                    break
            else:
                continue
            break
    return frozenset(out)


def _asd(bA, bB):
    tot = []
    for a in bA:
        best = min(sum((p - q) ** 2 for p, q in zip(a, b)) for b in bB)
        tot.append(math.sqrt(best))
    return math.fsum(tot) / len(tot)


def assd(X, Y, shape):
    bX, bY = border(X, shape), border(Y, shape)
    return 0.5 * (_asd(bX, bY) + _asd(bY, bX))


# Optional float snapping for ASSD (see DESIGN 3, "exact-threshold hits for ASSD"): matcher and
# decision checks install a callable (P, R, shape, model_value) -> library float of the same
# quantity (after verifying agreement within 1e-9), so that "score exactly at the threshold" means the
# same float on both sides. C07 never installs it.
ASSD_SNAP = None


def metric_value(name: str, P: frozenset, R: frozenset, shape):
    """name in IOU DSC ASSD RVD; P prediction set, R reference set (both non-empty)."""
    if name == "IOU":
        return iou(P, R)
    if name == "DSC":
        return dice(P, R)
    if name == "RVD":
        return rvd(P, R)
    if name == "ASSD":
        v = assd(P, R, shape)
        if ASSD_SNAP is not None:
            v = ASSD_SNAP(P, R, shape, v)
        return v
    raise ValueError(name)


DECREASING = {"IOU": False, "DSC": False, "ASSD": True, "RVD": True, "clDSC": False}


def beats(name: str, score: float, thr: float) -> bool:
    return score <= thr if DECREASING[name] else score >= thr


def better(name: str, a: float, b: float) -> bool:
    """a strictly better than b in the metric's preferred direction."""
    return a < b if DECREASING[name] else a > b


def tie_eps(name: str) -> float:
    return 1e-9 if name == "ASSD" else 0.0


# ----------------------------------------------------------------------------- matching
def candidates(pred_inst, ref_inst, metric, shape):
    """All overlapping (ref, pred) pairs with their score: list of (score, r, p)."""
    out = []
    for r, R in ref_inst.items():
        for p, P in pred_inst.items():
            if R & P:
                out.append((metric_value(metric, P, R, shape), r, p))
    return out


def competing_ties(cands, metric, many_to_one=False) -> bool:
    """True if two competing candidate pairs have (numerically) equal score."""
    eps = tie_eps(metric)
    for (s1, r1, p1), (s2, r2, p2) in itertools.combinations(cands, 2):
        if (r1 == r2 or p1 == p2) and abs(s1 - s2) <= max(eps, 0.0):
            if s1 == s2 or eps > 0:
                return True
    return False


def _orderings(cands, metric, cap=720):
    """All best-first orders consistent with the scores (tied blocks permuted).
    Returns (list_of_orders, complete: bool)."""
    eps = tie_eps(metric)
    srt = sorted(cands, key=lambda c: c[0], reverse=not DECREASING[metric])
    blocks = []
    for c in srt:
        if blocks and abs(blocks[-1][-1][0] - c[0]) <= eps:
            blocks[-1].append(c)
        else:
            blocks.append([c])
    total = 1
    for b in blocks:
        total *= math.factorial(len(b))
        if total > cap:
            return [srt], False
    orders = [[]]
    for b in blocks:
        orders = [o + list(perm) for o in orders for perm in itertools.permutations(b)]
    return orders, True


def greedy_one_to_one(order, metric, thr):
    used_r, used_p, out = set(), set(), set()
    for s, r, p in order:
        if r in used_r or p in used_p:
            continue
        if beats(metric, s, thr):
            used_r.add(r)
            used_p.add(p)
            out.add((r, p))
    return frozenset(out)


def greedy_many_to_one(order, metric, thr):
    """Each prediction goes to its best eligible reference; references may take many."""
    used_p, out = set(), set()
    for s, r, p in order:
        if p in used_p:
            continue
        if beats(metric, s, thr):
            used_p.add(p)
            out.add((r, p))
    return frozenset(out)


def naive_outcomes(cands, metric, thr, many_to_one=False):
    """Set of assignments reachable by the documented greedy under any order of tied
    pairs. Returns (set_of_frozensets, complete)."""
    orders, complete = _orderings(cands, metric)
    g = greedy_many_to_one if many_to_one else greedy_one_to_one
    return {g(o, metric, thr) for o in orders}, complete


def merge_outcome_for_order(order, metric, thr, pred_inst, ref_inst, shape):
    """Documented merge matcher: best-first; a prediction already assigned is skipped; a
    reference without a match takes the pair if its single score meets the threshold; a
    reference with a match takes a further prediction only if the union scores strictly
    better. Returns (assignment, ambiguous) where ambiguous flags a merge decision that
    sits within eps of equality."""
    assigned = {}
    members: dict[int, list[int]] = {}
    score = {}
    ambiguous = False
    eps = tie_eps(metric)
    for s, r, p in order:
        if p in assigned:
            continue
        if r in members:
            U = frozenset().union(*[pred_inst[q] for q in members[r]], pred_inst[p])
            ns = metric_value(metric, U, ref_inst[r], shape)
            if abs(ns - score[r]) <= eps and eps > 0:
                ambiguous = True
            if better(metric, ns, score[r]):
                assigned[p] = r
                members[r].append(p)
                score[r] = ns
        elif beats(metric, s, thr):
            assigned[p] = r
            members[r] = [p]
            score[r] = s
    return frozenset((r, p) for p, r in assigned.items()), ambiguous


def merge_outcomes(cands, metric, thr, pred_inst, ref_inst, shape):
    orders, complete = _orderings(cands, metric, cap=120)
    outs = set()
    amb = False
    for o in orders:
        a, am = merge_outcome_for_order(o, metric, thr, pred_inst, ref_inst, shape)
        outs.add(a)
        amb = amb or am
    return outs, complete and not amb


# ----------------------------------------------------------------------------- evaluation
def mean(xs):
    return math.fsum(xs) / len(xs)


def pstd(xs):
    m = mean(xs)
    return math.sqrt(math.fsum((x - m) ** 2 for x in xs) / len(xs))


def evaluate_assignment(assign, pred_inst, ref_inst, shape, metrics, decision=None):
    """assign: iterable of (r, p) (many p per r allowed -> union). Returns dict with tp,
    fp, fn, per-TP tuples (aligned over `metrics`) after the decision filter.
    num_pred counts distinct prediction instances after merging into references."""
    groups: dict[int, set] = {}
    for r, p in assign:
        groups.setdefault(r, set()).add(p)
    matched_preds = set(p for _, p in assign)
    n_ref = len(ref_inst)
    n_pred = len(pred_inst) - len(matched_preds) + len(groups)
    rows = []
    for r, ps in groups.items():
        P = frozenset().union(*[pred_inst[p] for p in ps])
        R = ref_inst[r]
        vals = {m: metric_value(m, P, R, shape) for m in set(metrics) | ({decision[0]} if decision else set())}
        if decision is not None and not beats(decision[0], vals[decision[0]], decision[1]):
            continue
        rows.append(tuple(vals[m] for m in metrics))
    tp = len(rows)
    return {
        "num_ref_instances": n_ref,
        "num_pred_instances": n_pred,
        "tp": tp,
        "fp": n_pred - tp,
        "fn": n_ref - tp,
        "rows": rows,
    }


def rq(tp, fp, fn):
    return tp / (tp + 0.5 * fp + 0.5 * fn)
