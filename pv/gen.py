"""Hypothesis strategies. Every strategy yields JSON-able values (arrays as nested
lists) so that a generated case *is* its replay file. All randomness is drawn from
Hypothesis."""
from __future__ import annotations

import math

import numpy as np
from hypothesis import strategies as st

SQ2 = math.sqrt(2.0)


# ----------------------------------------------------------------------------- shapes / maps
@st.composite
def shapes(draw, ndims=(1, 2, 3), max1=16, max2=8, max3=5):
    nd = draw(st.sampled_from(list(ndims)))
    mx = {1: max1, 2: max2, 3: max3}[nd]
    return [draw(st.integers(1, mx)) for _ in range(nd)]


def _vol(shape):
    v = 1
    for s in shape:
        v *= s
    return v


@st.composite
def free_map(draw, shape, k=4, density=None):
    """Free voxel labelling: dense ties, diagonal contacts, border contact."""
    n = _vol(shape)
    zeros = draw(st.integers(1, 6)) if density is None else density
    pool = [0] * zeros + list(range(1, k + 1))
    flat = draw(st.lists(st.sampled_from(pool), min_size=n, max_size=n))
    return np.array(flat, dtype=np.int64).reshape(shape)


@st.composite
def box_map(draw, shape, k=5):
    """Up to k boxes painted in order (later boxes overwrite)."""
    a = np.zeros(shape, dtype=np.int64)
    nb = draw(st.integers(0, k))
    for lab in range(1, nb + 1):
        sl = []
        for s in shape:
            lo = draw(st.integers(0, s - 1))
            ext = draw(st.integers(1, max(1, min(4, s - lo))))
            sl.append(slice(lo, lo + ext))
        a[tuple(sl)] = lab
    return a


@st.composite
def label_map(draw, shape, k=5):
    kind = draw(st.sampled_from(["free", "free", "free", "box", "box", "box", "box", "zero", "full"]))
    if kind == "free":
        return draw(free_map(shape, k=min(k, 4)))
    if kind == "box":
        return draw(box_map(shape, k=k))
    if kind == "full":  # no background at all: one label everywhere, or two labels split along an axis
        a = np.full(shape, 1, dtype=np.int64)
        if draw(st.booleans()) and max(shape) > 1:
            ax = draw(st.integers(0, len(shape) - 1))
            if shape[ax] > 1:
                cut = draw(st.integers(1, shape[ax] - 1))
                sl = [slice(None)] * len(shape)
                sl[ax] = slice(cut, None)
                a[tuple(sl)] = 2
        return a
    return np.zeros(shape, dtype=np.int64)


@st.composite
def many_small_pair(draw):
    """10-30 small instances (two-digit label values) in a 1-D or 2-row map; the prediction is the
    reference with per-instance perturbations."""
    n = draw(st.integers(10, 30))
    rows = draw(st.sampled_from([1, 2]))
    width = 4 * n + 1
    ref = np.zeros((rows, width), dtype=np.int64)
    pred = np.zeros((rows, width), dtype=np.int64)
    order = draw(st.permutations(list(range(1, n + 1)))) if draw(st.booleans()) else list(range(1, n + 1))
    for i in range(n):
        lab = order[i]
        ref[:, 4 * i + 1:4 * i + 4] = lab
        op = draw(st.sampled_from(["same", "same", "shrink", "shift", "drop", "relabel"]))
        plab = lab if op != "relabel" else ((lab % n) + 1)
        if op == "same" or op == "relabel":
            pred[:, 4 * i + 1:4 * i + 4] = plab
        elif op == "shrink":
            pred[:, 4 * i + 1:4 * i + 3] = plab
        elif op == "shift":
            pred[:, 4 * i + 2:4 * i + 5] = plab
    if rows == 1:
        ref, pred = ref[0], pred[0]
    return pred, ref


def _shift(a, axis, d):
    out = np.zeros_like(a)
    n = a.shape[axis]
    if abs(d) >= n:
        return out
    src = [slice(None)] * a.ndim
    dst = [slice(None)] * a.ndim
    if d >= 0:
        src[axis] = slice(0, n - d)
        dst[axis] = slice(d, n)
    else:
        src[axis] = slice(-d, n)
        dst[axis] = slice(0, n + d)
    out[tuple(dst)] = a[tuple(src)]
    return out


def _dilate_face(mask):
    out = mask.copy()
    for ax in range(mask.ndim):
        for d in (-1, 1):
            out |= _shift(mask.astype(np.int64), ax, d).astype(bool)
    return out


def _erode_face(mask):
    out = mask.copy()
    for ax in range(mask.ndim):
        for d in (-1, 1):
            out &= _shift(mask.astype(np.int64), ax, d).astype(bool)
    return out


@st.composite
def derived_pred(draw, ref, nops=None):
    """Prediction derived from the reference by a few structured perturbations, so that
    competing candidates, fragments, merges, nested and disjoint objects occur often."""
    pred = ref.copy()
    nd = ref.ndim
    ops = draw(
        st.lists(
            st.sampled_from(["shift", "grow", "shrink", "split", "split", "merge", "delete", "spurious", "drop", "relabel"]),
            min_size=0 if nops is None else nops,
            max_size=4 if nops is None else nops,
        )
    )
    nxt = int(pred.max()) + 1
    for op in ops:
        labs = [int(x) for x in np.unique(pred) if x != 0]
        if op == "shift":
            ax = draw(st.integers(0, nd - 1))
            d = draw(st.sampled_from([-2, -1, 1, 2]))
            if labs and draw(st.booleans()):
                lab = draw(st.sampled_from(labs))
                m = pred == lab
                pred[m] = 0
                sh = _shift(m.astype(np.int64), ax, d).astype(bool)
                pred[sh & (pred == 0)] = lab
            else:
                pred = _shift(pred, ax, d)
        elif op in ("grow", "shrink") and labs:
            lab = draw(st.sampled_from(labs))
            m = pred == lab
            if op == "grow":
                g = _dilate_face(m) & (pred == 0)
                pred[g] = lab
            else:
                e = _erode_face(m)
                pred[m & ~e] = 0
        elif op == "split" and labs:
            lab = draw(st.sampled_from(labs))
            ax = draw(st.integers(0, nd - 1))
            idx = np.nonzero(pred == lab)
            lo, hi = int(idx[ax].min()), int(idx[ax].max())
            if hi > lo:
                cut = draw(st.integers(lo + 1, hi))
                sel = [slice(None)] * nd
                sel[ax] = slice(cut, None)
                sub = pred[tuple(sel)]
                sub[sub == lab] = nxt
                nxt += 1
                if draw(st.booleans()):  # leave a gap so that the fragments do not touch
                    sel[ax] = slice(cut, cut + 1)
                    sub = pred[tuple(sel)]
                    sub[sub == nxt - 1] = 0
        elif op == "merge" and len(labs) >= 2:
            a_, b_ = draw(st.sampled_from(labs)), draw(st.sampled_from(labs))
            pred[pred == a_] = b_
        elif op == "delete" and labs:
            pred[pred == draw(st.sampled_from(labs))] = 0
        elif op == "spurious":
            sl = []
            for s in pred.shape:
                lo = draw(st.integers(0, s - 1))
                ext = draw(st.integers(1, max(1, min(3, s - lo))))
                sl.append(slice(lo, lo + ext))
            sub = pred[tuple(sl)]
            if draw(st.booleans()):
                sub[sub == 0] = nxt
            else:
                sub[...] = nxt
            nxt += 1
        elif op == "drop":
            n = pred.size
            k = draw(st.integers(1, max(1, n // 4)))
            pos = draw(st.lists(st.integers(0, n - 1), min_size=k, max_size=k))
            flat = pred.reshape(-1)
            flat[pos] = 0
        elif op == "relabel" and labs:
            perm = draw(st.permutations(labs))
            lut = np.zeros(max(labs) + 1, dtype=np.int64)
            for a_, b_ in zip(labs, perm):
                lut[a_] = b_
            pred = lut[pred]
    return pred


@st.composite
def pair(draw, ndims=(1, 2, 3), k=5, max1=16, max2=8, max3=5, derived_weight=2):
    """(pred, ref) int64 arrays with small labels 0..~8."""
    special = draw(st.integers(0, 24))
    if special == 0 and (1 in ndims or 2 in ndims):
        p_, r_ = draw(many_small_pair())
        if p_.ndim in ndims:
            return p_, r_
    if special == 1:  # occasionally a larger array
        max1, max2, max3 = max(max1, 40), max(max2, 20), max(max3, 8)
    shape = draw(shapes(ndims, max1, max2, max3))
    ref = draw(label_map(shape, k=k))
    kind = draw(st.sampled_from(["indep"] + ["derived"] * derived_weight + ["swap"]))
    if kind == "indep":
        pred = draw(label_map(shape, k=k))
    elif kind == "derived":
        pred = draw(derived_pred(ref))
    else:  # derived, then exchanged: the *reference* is the fragmented / merged side
        pred = draw(derived_pred(ref))
        pred, ref = ref, pred
    return pred, ref


def compact(a):
    """Relabel non-zero labels to 1..n in order of value (keeps partitions)."""
    labs = [int(x) for x in np.unique(a) if x != 0]
    lut = {l: i + 1 for i, l in enumerate(labs)}
    out = np.zeros_like(a)
    for l, n in lut.items():
        out[a == l] = n
    return out


def binar(a):
    return (np.asarray(a) != 0).astype(np.int64)


# ----------------------------------------------------------------------------- thresholds
def threshold(metric: str):
    """A threshold spec: {'v': float} or {'score': i} (= the score of the i-th candidate
    pair of the case, computed by the model at check time: exact-threshold hits); for the overlap
    metrics also {'score': i, 'nudge': +-1}: that score moved by a relative 2e-10 (a threshold that
    is missed, or met, by far less than any tolerance someone might be tempted to apply)."""
    if metric == "ASSD":
        fixed = [0.0, 0.5, 1.0, SQ2, 2.0, 5.0]
        fl = st.floats(0.0, 6.0, allow_nan=False)
    else:
        fixed = [0.0, 0.1, 0.25, 1.0 / 3.0, 0.5, 0.75, 1.0]
        fl = st.floats(0.0, 1.0, allow_nan=False)
    return st.one_of(
        st.sampled_from(fixed).map(lambda v: {"v": v}),
        st.sampled_from(fixed).map(lambda v: {"v": v}),
        fl.map(lambda v: {"v": v}),
        st.integers(0, 7).map(lambda i: {"score": i}),
        st.integers(0, 7).map(lambda i: {"score": i}),
        *([] if metric == "ASSD" else [st.tuples(st.integers(0, 7), st.sampled_from([-1, 1])).map(lambda t: {"score": t[0], "nudge": t[1]})]),
    )


def resolve_threshold(spec, scores, default=0.5):
    if "v" in spec:
        return float(spec["v"])
    if not scores:
        return default
    t = float(sorted(scores)[spec["score"] % len(scores)])
    return t * (1.0 + 2e-10 * spec["nudge"]) if spec.get("nudge") else t


# ----------------------------------------------------------------------------- dtypes and label values
LABEL_CLASSES = {
    "small": (1, 5),
    "near8": (250, 255),
    "over8": (256, 300),
    "near16": (65530, 65535),
    "over16": (65536, 70000),
    "near24": (2**24 - 8, 2**24 - 1),
    "mult256": None,  # values whose low byte / low 16 bits are zero
}
MULT256 = [256, 512, 768, 1024, 65536, 131072, 65536 + 256]


@st.composite
def label_value(draw, classes=("small", "near8", "over8", "near16", "over16")):
    c = draw(st.sampled_from(list(classes)))
    if c == "mult256":
        return draw(st.sampled_from(MULT256))
    lo, hi = LABEL_CLASSES[c]
    return draw(st.integers(lo, hi))


@st.composite
def injective_relabel(draw, labels, classes=("small", "near8", "over8", "near16", "over16")):
    """dict old->new, injective, new in [1, 2^24)."""
    out = {}
    used = set()
    for l in labels:
        for _ in range(20):
            v = draw(label_value(classes))
            if v not in used:
                break
        else:
            v = max(used) + 1
        used.add(v)
        out[int(l)] = int(v)
    return out


def apply_relabel(a, mp, dtype):
    out = np.zeros(a.shape, dtype=dtype)
    for o, n in mp.items():
        out[a == o] = n
    return out


def min_unsigned(maxval):
    for dt in ("uint8", "uint16", "uint32", "uint64"):
        if maxval <= np.iinfo(dt).max:
            return dt


def unsigned_at_least(maxval):
    order = ["uint8", "uint16", "uint32", "uint64"]
    return order[order.index(min_unsigned(maxval)):]


def signed_at_least(maxval):
    return [dt for dt in ("int8", "int16", "int32", "int64") if maxval <= np.iinfo(dt).max]


LAYOUTS = ["C", "F", "neg", "T", "step"]


def with_layout(a: np.ndarray, layout: str) -> np.ndarray:
    """Same values, different memory layout."""
    if layout == "C":
        return np.ascontiguousarray(a)
    if layout == "F":
        return np.asfortranarray(a)
    if layout == "neg":  # negative strides
        sl = tuple(slice(None, None, -1) for _ in range(a.ndim))
        return np.ascontiguousarray(a[sl])[sl]
    if layout == "T":  # transposed view of the transposed copy
        return np.ascontiguousarray(a.T).T
    if layout == "step":  # every second element of a larger buffer along the last axis
        big = np.zeros(a.shape[:-1] + (a.shape[-1] * 2,), dtype=a.dtype)
        big[..., ::2] = a
        return big[..., ::2]
    raise ValueError(layout)


@st.composite
def tie_instance_pair(draw):
    """Instance maps (1-D, or one row of a 2-D array) built from blocks; in a 'tie' block one reference
    instance of 6 voxels overlaps two prediction instances with exactly equal IoU (2/6 = 3/9) and Dice
    (4/8 = 6/12) but different volume and distance, so the result shows which candidate won the tie.
    Prediction labels are a drawn permutation, i.e. unrelated to positions."""
    blocks = draw(st.lists(st.sampled_from(["simple", "tie", "tie", "tie_mirrored", "near_tie"]), min_size=1, max_size=4))
    ref, pred = [0], [0]
    nr = npd = 0
    for b in blocks:
        if b == "simple":
            r, q = [1, 1, 1, 0], [0, 1, 1, 1]
        elif b == "near_tie":  # IoU 2/6 against 3/10: close, not equal
            r, q = [1, 1, 1, 1, 1, 1, 0, 0, 0, 0], [1, 1, 0, 2, 2, 2, 2, 2, 2, 2]
        else:
            r, q = [1, 1, 1, 1, 1, 1, 0, 0, 0], [1, 1, 0, 2, 2, 2, 2, 2, 2]
            if b == "tie_mirrored":
                r, q = r[::-1], q[::-1]
        nr += 1
        ref += [nr * x for x in r] + [0, 0]
        pred += [(npd + x) if x else 0 for x in q] + [0, 0]
        npd += max(q)
    perm = draw(st.permutations(list(range(1, npd + 1))))
    pred = [perm[x - 1] if x else 0 for x in pred]
    pa, ra = np.array(pred, dtype=np.int64), np.array(ref, dtype=np.int64)
    if draw(st.booleans()):
        rows, at = draw(st.integers(2, 3)), 0
        at = draw(st.integers(0, rows - 1))
        p2, r2 = np.zeros((rows, len(pred)), dtype=np.int64), np.zeros((rows, len(ref)), dtype=np.int64)
        p2[at], r2[at] = pa, ra
        pa, ra = p2, r2
    return pa, ra


@st.composite
def fragment_pair(draw, ndims=(1, 2, 3)):
    """Reference instances covered by 2-4 prediction fragments, with competing references
    and stray fragments."""
    shape = draw(shapes(ndims, max1=16, max2=8, max3=5))
    ref = draw(st.one_of(box_map(shape, k=4), box_map(shape, k=2), free_map(shape, k=2, density=2)))
    pred = ref.copy()
    nd = ref.ndim
    nxt = int(pred.max()) + 1
    for _ in range(draw(st.integers(1, 4))):
        labs = [int(x) for x in np.unique(pred) if x != 0]
        if not labs:
            break
        lab = draw(st.sampled_from(labs))
        ax = draw(st.integers(0, nd - 1))
        idx = np.nonzero(pred == lab)
        lo, hi = int(idx[ax].min()), int(idx[ax].max())
        if hi > lo:
            cut = draw(st.integers(lo + 1, hi))
            sel = [slice(None)] * nd
            sel[ax] = slice(cut, None)
            sub = pred[tuple(sel)]
            sub[sub == lab] = nxt
            nxt += 1
    pred = draw(derived_pred(pred, nops=draw(st.integers(0, 2))))
    if draw(st.integers(0, 4)) == 0:
        pred, ref = ref, pred
    return pred, ref


NAME_ALPHABET = "abcXYZ019-_ ."


@st.composite
def names(draw, n, alphabet=NAME_ALPHABET, max_size=7):
    """n names, unique ignoring case, non-empty, printable (letters, digits, '-', '_', space, '.', upper case)."""
    out, seen = [], set()
    for i in range(n):
        s = draw(st.text(alphabet=alphabet, min_size=1, max_size=max_size))
        if s.lower() in seen or not s.strip():
            s = f"{s.strip() or 'g'}{i}"
            while s.lower() in seen:
                s += "x"
        seen.add(s.lower())
        out.append(s)
    return out


@st.composite
def subject_name_variants(draw, nms, limit):
    """Subject names are compared as they are: add names that differ from existing ones only in case, in surrounding
    blanks, or that look like numbers / row indices, up to `limit` names in total."""
    out = list(nms)
    for _ in range(draw(st.integers(0, 3))):
        if len(out) >= limit:
            break
        base = draw(st.sampled_from(out))
        cand = draw(st.sampled_from([base.upper(), base.lower(), base.swapcase(), " " + base, base + " ", str(draw(st.integers(0, 3))), "00" + str(draw(st.integers(0, 3))), "1e0", "NA", "nan"]))
        if cand and cand.strip() and cand not in out:
            out.append(cand)
    return out


@st.composite
def group_defs(draw, labels=(1, 2, 3, 4, 5, 6, 9, 10, 11, 17, 19, 33, 200), max_groups=4, name_alphabet=NAME_ALPHABET):
    """Random partition of a subset of `labels` into 1-4 groups of kinds plain/merge/single."""
    ng = draw(st.integers(1, max_groups))
    perm = list(draw(st.permutations(list(labels))))
    nms = draw(names(ng, alphabet=name_alphabet))
    if draw(st.integers(0, 9)) == 0 and not any(n.lower() == "ungrouped" for n in nms):
        nms[draw(st.integers(0, ng - 1))] = draw(st.sampled_from(["ungrouped", "Ungrouped"]))  # the name group-less evaluators report under
    groups = []
    for i in range(ng):
        if not perm:
            break
        kind = draw(st.sampled_from(["plain", "plain", "plain", "merge", "merge", "single", "single", "merge_single"]))
        k = 1 if kind in ("single", "merge_single") else draw(st.integers(1, max(1, min(3, len(perm) - (ng - i - 1)))))
        labs, perm = perm[:k], perm[k:]
        # the labels of a group in ascending order, or in the order drawn (a user may list them in any order)
        g = {"name": nms[i], "labels": sorted(labs) if draw(st.booleans()) else list(labs), "kind": kind}
        if kind in ("plain", "single") and draw(st.integers(0, 3)) == 0:
            # handed to SegmentationClassGroups as a (labels, single_instance) tuple instead of a LabelGroup object
            g["form"] = draw(st.sampled_from(["tuple", "tuple_scalar" if len(labs) == 1 else "tuple"]))
        groups.append(g)
    return groups
