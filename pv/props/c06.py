"""C06 - Dice, IoU, RVD, clDice equal their set-theoretic definitions."""
from __future__ import annotations

import numpy as np
from hypothesis import strategies as st

from .. import gen, harness as H, lib, refmodel as M
from ..harness import Violation

LEVEL = "exploration"
RULE = (
    "Hypothesis-generated pairs of 1-3-D label arrays (free voxel labelling and boxes, sides <=16/8/5; "
    "run-length encoded 1-D arrays of up to 140k voxels; 2-D<=12x12 / 3-D<=6^3 for clDice) x dtype in "
    "bool/uint8-64/int8-64/float32/64 x reference label x prediction label or list of 1-4 labels (present, "
    "absent, repeated, or not representable in the array dtype: 256 in uint8, 2^32+1; a quarter of the cases with all labels shifted by 1000 ... 2^40 in 32/64-bit dtypes; negative labels are outside the documented domain) or no selection (0/1 masks; since fix D18 also masks with another foreground value). Oracle: set formulas on coordinate sets. A case is "
    "non-trivial when both selected masks are non-empty and neither equal nor disjoint; distinct = distinct "
    "canonical JSON of the case."
)
ASSUMPTIONS = [
    "clDice oracle takes the skeleton from skimage.morphology.skeletonize (the property defines clDice relative to 'each mask's skeleton'); the harmonic-mean arithmetic is independent",
    "undefined quotients (empty union, empty reference for RVD, empty skeleton) are classified and skipped",
    "comparison tolerance 1e-12 (relative/absolute)",
]
BUDGET = {"quick": 450, "thorough": 8000}
BOUNDS = {"sides": "1-D<=16, 2-D<=8, 3-D<=5; rle 1-D <= 140000 voxels; clDice 2-D<=12, 3-D<=6", "labels": "0..6 (dtype permitting)"}
TOL = 1e-12

DTYPES = ["uint8", "uint16", "uint32", "uint64", "int8", "int16", "int32", "int64", "float32", "float64"]


@st.composite
def sel_case(draw):
    pred, ref = draw(gen.pair(k=4))
    dtype = draw(st.sampled_from(DTYPES + ["bool"]))
    # labels: mostly small, sometimes not representable in the array's dtype (then necessarily absent)
    lab = st.one_of(st.integers(1, 7), st.integers(1, 7), st.integers(0, 7), st.sampled_from([255, 256, 257, 259, 300, 65535, 65536, 65539, 2**31, 2**32 + 1]))
    ref_idx = draw(lab)
    kind = draw(st.integers(0, 4))
    if kind <= 1:
        pred_idx = draw(lab)
    elif kind <= 3:
        pred_idx = draw(st.lists(lab, min_size=0, max_size=4))  # the empty list selects nothing
    else:
        # repeated labels around a gap, e.g. [1, 3, 3]: as many entries as a consecutive run would have
        a, g = draw(st.integers(1, 5)), draw(st.integers(2, 3))
        pool = [a, a + g]
        pred_idx = [a, a + g] + [draw(st.sampled_from(pool)) for _ in range(g - 1)]
        pred_idx = list(draw(st.permutations(pred_idx)))
    case = {"kind": "sel", "layout": draw(st.sampled_from(["C", "C", "F", "neg", "T", "step"])), "dtype": dtype, "ref": ref.tolist(), "pred": pred.tolist(), "ref_idx": ref_idx, "pred_idx": pred_idx}
    if dtype in ("uint8", "int8") and not isinstance(pred_idx, list) and draw(st.integers(0, 3)) == 0:
        # the two arrays need not share a dtype: the prediction is 16 bit wide and its labels (and the queried
        # prediction label) are 256 higher - values the reference's dtype cannot hold
        case["pred_dtype"] = draw(st.sampled_from(["uint16", "int32"]))
        if 0 < pred_idx <= 7:
            case["pred_idx"] = pred_idx + 256
    elif draw(st.integers(0, 3)) == 0:
        # neighbouring labels far from zero: every non-zero label of the maps and of the query is shifted by the same amount
        case["offset"] = draw(st.sampled_from([1000, 200000, 2**24, 2**31 - 20, 2**40]))
        case["dtype"] = draw(st.sampled_from([d for d in ("int32", "uint32", "int64", "uint64", "float64") if case["offset"] + 8 <= (np.iinfo(d).max if d != "float64" else 2**52)]))
        shift = lambda l: l + case["offset"] if 0 < l <= 7 else l  # noqa: E731
        case["ref_idx"] = shift(ref_idx)
        case["pred_idx"] = [shift(l) for l in pred_idx] if isinstance(pred_idx, list) else shift(pred_idx)
    return case


@st.composite
def bin_case(draw):
    pred, ref = draw(gen.pair(k=3))
    dtype = draw(st.sampled_from(["bool"] + DTYPES))
    case = {"kind": "bin", "dtype": dtype, "ref": gen.binar(ref).tolist(), "pred": gen.binar(pred).tolist()}
    if dtype != "bool" and draw(st.integers(0, 2)) == 0:
        # masks whose foreground value is not 1 (0/255 masks, a label map handed over as it is): without a label
        # selection every non-zero voxel is foreground
        case["values"] = [draw(st.sampled_from([2, 3, 100, 127])), draw(st.sampled_from([1, 2, 5, 127]))]
    return case


@st.composite
def rle_case(draw, huge=False):
    """1-D arrays given as runs; total length up to ~140k voxels (accumulator width)."""
    nruns = draw(st.integers(1, 6))
    runs = []
    for _ in range(nruns):
        n = draw(st.sampled_from([1, 3, 255, 256, 257, 4097, 32768, 65535, 65536, 70001]))
        runs.append([draw(st.integers(0, 1)), draw(st.integers(0, 1)), n])
    if huge and draw(st.integers(0, 7)) == 0:
        # one run of more than 2^24 voxels: counts that a 32-bit float accumulator cannot hold exactly
        runs.insert(draw(st.integers(0, len(runs))), [1, draw(st.integers(0, 1)), 2**24 + draw(st.sampled_from([1, 3, 5]))])
    dtype = draw(st.sampled_from(["bool", "uint8", "int8", "uint16", "float32", "int64"]))
    return {"kind": "rle", "dtype": dtype, "runs": runs}


@st.composite
def cl_case(draw):
    nd = draw(st.sampled_from([2, 3]))
    shape = draw(gen.shapes((nd,), max2=12, max3=6))
    ref = draw(st.one_of(gen.box_map(shape, k=3), gen.free_map(shape, k=1, density=1)))
    pred = draw(st.one_of(gen.derived_pred(ref), gen.box_map(shape, k=3)))
    sel = draw(st.integers(0, 2))
    d = {"kind": "cl", "layout": draw(st.sampled_from(["C", "C", "F", "T", "neg"])), "dtype": draw(st.sampled_from(["uint8", "bool", "int64"])), "ref": gen.binar(ref).tolist(), "pred": gen.binar(pred).tolist()}
    if sel == 1 and d["dtype"] != "bool":
        d["ref_idx"] = 1
        d["pred_idx"] = 1
    elif sel == 2 and d["dtype"] != "bool":
        # selection of one label out of a map holding several instances
        d["ref"], d["pred"] = ref.tolist(), pred.tolist()
        d["ref_idx"] = draw(st.integers(1, 3))
        d["pred_idx"] = draw(st.integers(1, 3))
    return d


def searches(tier):
    n = BUDGET[tier]
    return [
        ("sel", sel_case(), n * 5 // 10),
        ("bin", bin_case(), n * 2 // 10),
        ("cl", cl_case(), n * 2 // 10),
        ("rle", rle_case(huge=tier == "thorough"), max(8, n // 40)),
    ]


def _arrays(case):
    if case["kind"] == "rle":
        r = np.concatenate([np.full(n, a) for a, b, n in case["runs"]])
        p = np.concatenate([np.full(n, b) for a, b, n in case["runs"]])
        return r.astype(case["dtype"]), p.astype(case["dtype"])
    lay = case.get("layout", "C")
    r, p = np.array(case["ref"]), np.array(case["pred"])
    if case.get("values"):
        r, p = r * case["values"][0], p * case["values"][1]
    if case.get("offset"):
        r, p = np.where(r != 0, r + case["offset"], 0), np.where(p != 0, p + case["offset"], 0)
    if case.get("pred_dtype"):
        return gen.with_layout(r.astype(case["dtype"]), lay), gen.with_layout(np.where(p != 0, p + 256, 0).astype(case["pred_dtype"]), lay)
    return gen.with_layout(r.astype(case["dtype"]), lay), gen.with_layout(p.astype(case["dtype"]), lay)


def check(case, stats):
    from panoptica.metrics import Metric
    import panoptica.metrics as pm

    ref, pred = _arrays(case)
    kind = case["kind"]
    ref_idx = case.get("ref_idx")
    pred_idx = case.get("pred_idx")
    if ref_idx is not None:
        info = np.iinfo(ref.dtype) if np.issubdtype(ref.dtype, np.integer) else None
        # labels not representable in the dtype cannot occur in the array: still a valid query
        plist = pred_idx if isinstance(pred_idx, list) else [pred_idx]
        if kind == "rle":
            raise H.HarnessError("rle with selection")
        # voxels carrying exactly the given label (label 0 selects the zero voxels, an empty list nothing)
        def sel(a, labs):
            m = np.zeros(a.shape, dtype=bool)
            for l in labs:
                m |= (a.astype(object) == l) if a.dtype == bool else (a == l) if (not np.issubdtype(a.dtype, np.integer) or np.iinfo(a.dtype).min <= l <= np.iinfo(a.dtype).max) else False
            return frozenset(tuple(int(i) for i in idx) for idx in zip(*np.nonzero(m)))
        R = sel(ref, [ref_idx])
        Pset = sel(pred, plist)
        nR, nP, nI, nU = len(R), len(Pset), len(R & Pset), len(R | Pset)
    else:
        if kind == "rle":
            nR = sum(n for a, b, n in case["runs"] if a)
            nP = sum(n for a, b, n in case["runs"] if b)
            nI = sum(n for a, b, n in case["runs"] if a and b)
            nU = sum(n for a, b, n in case["runs"] if a or b)
            R = Pset = None
        else:
            R, Pset = M.foreground(ref), M.foreground(pred)
            nR, nP, nI, nU = len(R), len(Pset), len(R & Pset), len(R | Pset)

    nontrivial = nR > 0 and nP > 0 and 0 < nI and not (nI == nR == nP)
    classes = [kind, f"dtype={case['dtype']}", f"ndim={ref.ndim}"] + (["labels_far_from_zero"] if case.get("offset") else []) + (["prediction_in_a_wider_dtype"] if case.get("pred_dtype") else [])
    if isinstance(pred_idx, list):
        classes.append("pred_list")
    if ref_idx is not None and np.issubdtype(ref.dtype, np.integer):
        info = np.iinfo(ref.dtype)
        if any(not (info.min <= l <= info.max) for l in (pred_idx if isinstance(pred_idx, list) else [pred_idx]) + [ref_idx]):
            classes.append("label_outside_dtype_range")
    if nU == 0:
        classes.append("undefined:empty_union")
    stats.record(case, nontrivial, classes)

    def call(m, a_ref, a_pred, ri, pi_):
        if ri is None:
            return H.lib_call(Metric[m], a_ref, a_pred)
        return H.lib_call(Metric[m], a_ref, a_pred, ri, pi_)

    if nU > 0:
        want_iou = nI / nU
        want_dsc = 2 * nI / (nR + nP)
        got_iou = float(call("IOU", ref, pred, ref_idx, pred_idx))
        got_dsc = float(call("DSC", ref, pred, ref_idx, pred_idx))
        if not H.same_value(got_iou, want_iou, TOL):
            raise Violation(f"IoU={got_iou!r}, definition gives {want_iou!r} (|I|={nI},|U|={nU})")
        if not H.same_value(got_dsc, want_dsc, TOL):
            raise Violation(f"Dice={got_dsc!r}, definition gives {want_dsc!r} (|I|={nI},|R|={nR},|P|={nP})")
        if not H.same_value(got_dsc, 2 * got_iou / (1 + got_iou), 1e-12):
            raise Violation(f"Dice {got_dsc!r} != 2 IoU/(1+IoU) with IoU {got_iou!r}")
        for nm, g in (("IoU", got_iou), ("Dice", got_dsc)):
            if not (0.0 <= g <= 1.0):
                raise Violation(f"{nm}={g!r} outside [0,1]")
            is_one = g == 1.0
            identical = nI == nR == nP and nR > 0
            if is_one != identical:
                raise Violation(f"{nm}={g!r} but identical-non-empty={identical}")
        # symmetry under exchange of the masks (single labels / no selection only)
        if not isinstance(pred_idx, list):
            s_iou = float(call("IOU", pred, ref, pred_idx, ref_idx))
            s_dsc = float(call("DSC", pred, ref, pred_idx, ref_idx))
            if not (H.same_value(s_iou, got_iou, TOL) and H.same_value(s_dsc, got_dsc, TOL)):
                raise Violation(f"not symmetric: IoU {got_iou!r}/{s_iou!r} Dice {got_dsc!r}/{s_dsc!r}")
    if nR > 0:
        want_rvd = (nP - nR) / nR
        got_rvd = float(call("RVD", ref, pred, ref_idx, pred_idx))
        if not H.same_value(got_rvd, want_rvd, TOL):
            raise Violation(f"RVD={got_rvd!r}, definition gives {want_rvd!r} (|P|={nP},|R|={nR})")
    # the instance-level functions the Metric members wrap take the two labels themselves
    if ref_idx is not None and not isinstance(pred_idx, list) and kind == "sel":
        stats.count("instance_level_functions_called")
        direct = []
        if nU > 0:
            direct += [("_compute_instance_iou", nI / nU), ("_compute_instance_volumetric_dice", 2 * nI / (nR + nP))]
        if nR > 0:
            direct += [("_compute_instance_relative_volume_difference", (nP - nR) / nR)]
        for fn, want in direct:
            got = float(H.lib_call(getattr(pm, fn), ref, pred, ref_idx, pred_idx))
            if not H.same_value(got, want, TOL):
                raise Violation(f"{fn}(ref, pred, {ref_idx}, {pred_idx})={got!r}, definition gives {want!r} (|I|={nI},|R|={nR},|P|={nP})")
    else:
        stats.count("undefined:rvd_empty_ref")

    if kind == "cl":
        from skimage.morphology import skeletonize

        rb = (np.array(case["ref"]) != 0) if ref_idx is None else (np.array(case["ref"]) == ref_idx)
        pb = (np.array(case["pred"]) != 0) if pred_idx is None else (np.array(case["pred"]) == pred_idx)
        sr = skeletonize(rb) != 0
        sp = skeletonize(pb) != 0
        if sr.sum() == 0 or sp.sum() == 0:
            stats.count("undefined:empty_skeleton")
            return
        tprec = int((sr & pb).sum()) / int(sr.sum())
        tsens = int((sp & rb).sum()) / int(sp.sum())
        if tprec + tsens == 0:
            stats.count("undefined:cldice_zero_denominator")
            return
        want = 2 * tprec * tsens / (tprec + tsens)
        got = float(call("clDSC", ref, pred, ref_idx, pred_idx))
        if not H.same_value(got, want, 1e-12):
            raise Violation(f"clDice={got!r}, harmonic mean of skeleton coverages gives {want!r} (tprec={tprec}, tsens={tsens})")
        if ref_idx is not None:
            got = float(H.lib_call(pm._compute_centerline_dice, ref, pred, ref_idx, pred_idx))
            if not H.same_value(got, want, 1e-12):
                raise Violation(f"_compute_centerline_dice(ref, pred, {ref_idx}, {pred_idx})={got!r}, harmonic mean of skeleton coverages gives {want!r}")
        stats.count("cldice_compared")
