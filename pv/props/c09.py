"""C09 - results do not depend on label values, label order or integer dtype."""
from __future__ import annotations

import numpy as np
from hypothesis import strategies as st

from .. import gen, harness as H, lib, meta, pipemodel as PM, refmodel as M
from ..harness import Violation
from . import c01

LEVEL = "exploration"
CLASSES = ("small", "near8", "over8", "near16", "over16", "mult256")
RULE = (
    "Base case: label-map pair (1-3-D, derived predictions) with labels 1..n in uint8/uint16; transformed copy: labels "
    "renamed injectively (prediction and reference independently; jointly for matched input) into the classes {1..5, "
    "250..255, 256..300, 65530..65535, 65536..70000, 2^24-8..2^24-1 (<=6 % of cases)} and stored in any unsigned dtype "
    "wide enough (signed dtypes too for semantic input); all input types; threshold, many-to-one and merge matchers; "
    "optional decision metric; global metrics {DSC, IOU}. A second family: semantic 1-D maps with 3-300 one-voxel components per side whose single label and dtype change (1/3/200/255 in uint8/int16 -> 1..70000 in any dtype): counts equal the construction and the two results are identical. Oracle (metamorphic): the complete observation (to_dict + "
    "per-TP tuples as multiset) of the transformed run equals the base run whenever the reference model says the "
    "matching is uniquely determined; otherwise only tie-independent fields (reference instance count, global metrics). "
    "Non-trivial: tp>0 in the base run and the renaming leaves the class {1..5}; distinct = distinct canonical case."
)
ASSUMPTIONS = [
    "Pool replaced by a serial order-preserving stand-in (justified by C15)",
    "uniqueness of the matching is decided by the reference model (no two competing candidates with equal score, no score within 1e-9 of a threshold for ASSD)",
]
BUDGET = {"quick": 130, "thorough": 2500}
BOUNDS = {"labels": "[1, 2^24)", "sides": "1-D<=16, 2-D<=8, 3-D<=5"}


def prepare(tier):
    lib.install_assd_snap()


@st.composite
def case_strategy(draw):
    case = draw(c01.case_strategy(allow_relabel=False))  # the base case keeps small labels; the renaming is this check's own
    pred, ref = np.array(case["pred"]), np.array(case["ref"])
    it = case["input"]
    if it != "SEMANTIC":
        pred, ref = (gen.compact(pred), gen.compact(ref)) if it == "UNMATCHED_INSTANCE" else (pred, ref)
    if case["matcher"] is not None:
        kind = draw(st.sampled_from(["naive", "naive", "naive_m2o", "merge"]))
        case["matcher"]["kind"] = "merge" if kind == "merge" else "naive"
        case["matcher"]["m2o"] = kind == "naive_m2o"
    cls = CLASSES + (("near24",) if draw(st.integers(0, 15)) == 0 else ())
    focus = draw(st.sampled_from([None, None, ("near8",), ("near16", "over16"), ("over16",), ("near8", "small")]))
    cls = focus or cls
    pl = [int(x) for x in np.unique(pred) if x]
    rl = [int(x) for x in np.unique(ref) if x]
    if it == "MATCHED_INSTANCE":
        mp = draw(gen.injective_relabel(sorted(set(pl) | set(rl)), cls))
        pm, rm = {l: mp[l] for l in pl}, {l: mp[l] for l in rl}
    else:
        pm, rm = draw(gen.injective_relabel(pl, cls)), draw(gen.injective_relabel(rl, cls))
    mx = max(list(pm.values()) + list(rm.values()) + [1])
    dts = gen.unsigned_at_least(mx) + (gen.signed_at_least(mx) if it == "SEMANTIC" else [])
    case.update({
        "pred": pred.tolist(), "ref": ref.tolist(), "dtype": "uint8",
        "pmap": {str(k): v for k, v in pm.items()}, "rmap": {str(k): v for k, v in rm.items()},
        "dtype2": draw(st.sampled_from(dts)) if draw(st.booleans()) else dts[0],
        "gmetrics": ["DSC", "IOU"],
    })
    return case


@st.composite
def many_case(draw):
    """Semantic maps with up to 300 one-voxel components per side: the instance count, not the label value,
    decides the width the approximated maps need."""
    return {"many": True, "n_ref": draw(st.sampled_from([3, 200, 254, 255, 256, 257, 300])), "n_match": draw(st.integers(0, 300)), "n_unmatched": draw(st.sampled_from([0, 1, 2, 60, 300])),
            "label": draw(st.sampled_from([1, 1, 3, 200, 255])), "dtype": draw(st.sampled_from(["uint8", "uint8", "int16"])),
            "label2": draw(st.sampled_from([1, 2, 255, 256, 1000, 65535, 70000])), "dtype2": draw(st.sampled_from(["uint8", "uint16", "int32", "uint32", "int64", "uint64"])),
            "backend": draw(st.sampled_from([None, "cc3d", "scipy"]))}


def searches(tier):
    return [("relabel", case_strategy(), BUDGET[tier]), ("many_components", many_case(), max(6, BUDGET[tier] // 25))]


def check_many(case, stats):
    n_ref, n_match, n_un = case["n_ref"], min(case["n_match"], case["n_ref"]), case["n_unmatched"]
    L = 4 * max(n_ref, n_un) + 4
    ref = np.zeros(L, dtype=np.int64)
    pred = np.zeros(L, dtype=np.int64)
    ref[0:4 * n_ref:4] = 1
    pred[0:4 * n_match:4] = 1
    pred[2:4 * n_un + 2:4] = 1
    lab2 = case["label2"]
    if np.dtype(case["dtype2"]).kind in "ui" and lab2 > np.iinfo(case["dtype2"]).max:
        lab2 = int(np.iinfo(case["dtype2"]).max)
    cfg = {"input": "SEMANTIC", "backend": case["backend"], "matcher": {"kind": "naive", "metric": "IOU", "thr": 0.5, "m2o": False}, "imetrics": ["DSC", "IOU"], "gmetrics": ["DSC"]}
    stats.record(case, n_match > 0 and max(n_ref, n_match + n_un) > 255, ["many_components", f"dtype2={case['dtype2']}", "more_than_255_components" if max(n_ref, n_match + n_un) > 255 else "at_most_255_components"])
    obs = []
    for lab, dt in ((case["label"], case["dtype"]), (lab2, case["dtype2"])):
        p, r = (pred * lab).astype(dt), (ref * lab).astype(dt)
        obs.append(meta.observe(H.lib_call(lib.evaluator(cfg).evaluate, p, r)["ungrouped"][0]))
    d = obs[0]["dict"]
    want = {"num_ref_instances": n_ref, "num_pred_instances": n_match + n_un, "tp": n_match}
    for k, v in want.items():
        if d.get(k) != v:
            raise Violation(f"{n_ref} reference and {n_match}+{n_un} prediction components (label {case['label']}, {case['dtype']}): {k}={d.get(k)}, expected {v}")
    msg = meta.diff(obs[0], obs[1])
    if msg:
        raise Violation(f"result changes when the semantic label {case['label']} ({case['dtype']}) becomes {lab2} ({case['dtype2']}) with {n_ref}/{n_match + n_un} components: {msg}")


def check(case, stats):
    if case.get("many"):
        return check_many(case, stats)
    lib.run_primes(case.get("primes"))
    pred, ref, cfg = c01.resolve(case)
    cfg["gmetrics"] = case.get("gmetrics", [])
    pm = {int(k): v for k, v in case["pmap"].items()}
    rm = {int(k): v for k, v in case["rmap"].items()}
    pred2 = gen.apply_relabel(pred, pm, case["dtype2"])
    ref2 = gen.apply_relabel(ref, rm, case["dtype2"])
    exps, complete, info = PM.expected_results(pred, ref, cfg)
    unique = complete and len(exps) == 1
    ev = lib.evaluator(cfg)
    base = meta.observe(H.lib_call(ev.evaluate, pred, ref)["ungrouped"][0])
    vals = list(pm.values()) + list(rm.values())
    leaves_small = any(v > 5 for v in vals)
    classes = [f"input={cfg['input']}", f"dtype2={case['dtype2']}", "unique" if unique else "ambiguous"]
    mx = max(vals + [0])
    prod = max(pm.values(), default=0) * (max(rm.values(), default=0) + 1)
    if prod >= 2**32:
        classes.append("pair_product>=2^32")
    for nm, rng in gen.LABEL_CLASSES.items():
        if rng is not None and any(rng[0] <= v <= rng[1] for v in vals):
            classes.append(f"labels:{nm}")
    if any(v % 256 == 0 for v in vals):
        classes.append("labels:multiple_of_256")
    if vals and np.dtype(case["dtype2"]).kind == "u" and mx + len(pm) > np.iinfo(case["dtype2"]).max:
        classes.append("fresh_labels_past_dtype_max")
    stats.record(case, base["dict"].get("tp", 0) > 0 and leaves_small, classes)
    only = None if unique else ("num_ref_instances", "global_bin_dsc", "global_bin_iou")
    # a sibling renaming first (same label values, assigned to other instances): two evaluations with large
    # labels in a row, so that anything remembered from the first one (lookup tables, caches) meets the second
    def rotate(mp):
        ks, vs = list(mp), list(mp.values())
        return dict(zip(ks, vs[1:] + vs[:1]))
    if case["input"] == "MATCHED_INSTANCE":
        allm = rotate({**pm, **rm})
        pm3, rm3 = {k: allm[k] for k in pm}, {k: allm[k] for k in rm}
    else:
        pm3, rm3 = rotate(pm), rotate(rm)
    pred3 = gen.apply_relabel(pred, pm3, case["dtype2"])
    ref3 = gen.apply_relabel(ref, rm3, case["dtype2"])
    for tag, p_, r_ in (("sibling renaming", pred3, ref3), ("renaming", pred2, ref2)):
        tr = meta.observe(H.lib_call(lib.evaluator(cfg).evaluate, p_, r_)["ungrouped"][0])
        msg = meta.diff(base, tr, only=only)
        if msg:
            raise Violation(f"result changes under label {tag} / dtype {case['dtype2']} (labels {sorted(set(vals))[:8]}): {msg}")
