"""C05 - instance approximation yields exactly the connected components."""
from __future__ import annotations

import itertools

import numpy as np
from hypothesis import strategies as st

from .. import gen, harness as H, lib, refmodel as M
from ..harness import Violation

LEVEL = "exploration"
RULE = (
    "Semantic maps in 1-3-D (free voxel labelling with 1-4 semantic labels so that diagonal-only contacts and "
    "different-label adjacency are frequent; boxes), label values from classes {1..5, 250..255, 256..300, 65530..65535, "
    "65536..70000}, signed and unsigned dtypes wide enough, backend in {default, cc3d, scipy}, the approximator object optionally used first on a probe of another dimensionality; plus maps of 0-513 isolated "
    "single-voxel components under one small semantic label (component counts around 2^8, where the output dtype is decided). Exhaustive: all 3x3 maps "
    "over {0,1,2} and all 2x2x2 maps over {0,1,2}, each under the three backends. Oracle: partition of the foreground "
    "computed by breadth-first flood fill under the documented connectivity (scipy: face, label-blind; cc3d: full, equal "
    "labels only; default = cc3d iff 3-D) must equal the partition by output label; labels exactly 1..n; n = reported "
    "count; foreground unchanged. Non-trivial: the two documented connectivities give different partitions on the map "
    "(diagonal-only contact or adjacent different labels), or more than 255 components; distinct = distinct canonical case."
)
ASSUMPTIONS = ["no negative labels (documented precondition)"]
BUDGET = {"quick": 300, "thorough": 5000}
BOUNDS = {"sides": "1-D<=16, 2-D<=8, 3-D<=5", "labels": "< 2^17 in generated cases; {0,1,2} in exhaustive sub-domains"}


@st.composite
def case_strategy(draw):
    shape = draw(gen.shapes())
    k = draw(st.integers(1, 4))
    mk = lambda: draw(st.one_of(gen.free_map(shape, k=k), gen.free_map(shape, k=k, density=1), gen.box_map(shape, k=4), st.just(np.zeros(shape, dtype=np.int64))))
    pred, ref = mk(), mk()
    labs = sorted(set(np.unique(pred)) | set(np.unique(ref)) - {0})
    labs = [int(l) for l in labs if l != 0]
    mp = draw(gen.injective_relabel(labs)) if draw(st.booleans()) else {l: l for l in labs}
    mx = max(mp.values(), default=1)
    dtype = draw(st.sampled_from(gen.unsigned_at_least(mx) + gen.signed_at_least(mx)))
    return {
        "pred": gen.apply_relabel(pred, mp, "int64").tolist(),
        "ref": gen.apply_relabel(ref, mp, "int64").tolist(),
        "dtype": dtype,
        "backend": draw(st.sampled_from([None, "cc3d", "scipy"])),
        "layout": draw(st.sampled_from(["C", "C", "F", "neg", "shared"])),  # shared: both maps are channels of one parent array
        # the same approximator object is first used on a probe of another dimensionality
        "prime": draw(st.sampled_from([None, None, "1d", "2d", "3d"])),
    }


TIER = "quick"


def prepare(tier):
    global TIER
    TIER = tier


@st.composite
def many_case(draw, big=False):
    """Many isolated components under a small semantic label: the component count, not the label value,
    decides the output dtype (counts around 2^8 and, in a small separate search of the thorough tier, 2^16)."""
    counts = [65535, 65536, 65537, 300] if big else [1, 254, 255, 256, 257, 300, 511, 513]
    return {
        "kind": "many",
        "n_pred": draw(st.sampled_from(counts + [0])),
        "n_ref": draw(st.sampled_from(counts + [0])),
        "label": draw(st.sampled_from([1, 3, 200, 255, 256, 1000])),
        "rows": draw(st.sampled_from([1, 3])),
        "dtype": draw(st.sampled_from(["uint8", "uint16", "int16", "int64", "uint32"])),
        "backend": draw(st.sampled_from([None, "cc3d", "scipy"])),
        "layout": "C",
    }


def build_many(case):
    def one(n):
        L = max(2 * max(case["n_pred"], case["n_ref"]) + 1, 3)
        a = np.zeros((case["rows"], L), dtype=np.int64)
        a[case["rows"] // 2, 1:2 * n:2] = case["label"]
        return a if case["rows"] > 1 else a[0]
    lab = case["label"]
    dt = case["dtype"]
    if lab > np.iinfo(dt).max:
        dt = "int64"
    return one(case["n_pred"]).astype(dt), one(case["n_ref"]).astype(dt)


def searches(tier):
    prepare(tier)
    n = BUDGET[tier]
    out = [("maps", case_strategy(), n), ("many_components", many_case(), max(6, n // 8))]
    if tier == "thorough":
        out.append(("many_components_2^16", many_case(big=True), 4))  # ~5 s per case in the pure-Python model
    return out


def enumerations(tier):
    def gen_shape(shape):
        n = int(np.prod(shape))
        for vals in itertools.product((0, 1, 2), repeat=n):
            a = np.array(vals, dtype=np.int64).reshape(shape)
            for bk in (None, "cc3d", "scipy"):
                yield {"pred": a.tolist(), "ref": a[::-1].T.tolist() if len(shape) == 2 else a[::-1].tolist(), "dtype": "uint8", "backend": bk, "layout": "C", "enum": True}
    return [("3x3_over_012", gen_shape((3, 3))), ("2x2x2_over_012", gen_shape((2, 2, 2)))]


def _check_side(name, out, n_reported, inp, backend_eff):
    shape = inp.shape
    if out.shape != shape:
        raise Violation(f"{name}: output shape {out.shape} != input shape {shape}")
    fg_in, fg_out = M.foreground(inp), M.foreground(out)
    if fg_in != fg_out:
        raise Violation(f"{name}: foreground changed by approximation ({len(fg_in)} -> {len(fg_out)} voxels)")
    inst = M.instances(out)
    n = len(inst)
    if sorted(inst) != list(range(1, n + 1)):
        raise Violation(f"{name}: instance labels {sorted(inst)} are not exactly 1..{n}")
    if int(n_reported) != n:
        raise Violation(f"{name}: reported instance count {n_reported} != number of labels {n}")
    want = set(M.cc_partition(inp, backend_eff))
    got = set(inst.values())
    if want != got:
        raise Violation(
            f"{name}: instances are not the connected components under the documented {backend_eff} connectivity: "
            f"model has {len(want)} components, output has {len(got)} instances"
        )


def check(case, stats):
    from panoptica import ConnectedComponentsInstanceApproximator, SemanticPair

    if case.get("kind") == "many":
        pred, ref = build_many(case)
    else:
        if case["layout"] == "shared":
            parent = np.stack([np.array(case["ref"]), np.array(case["pred"])], axis=-1).astype(case["dtype"])
            ref, pred = parent[..., 0], parent[..., 1]
        else:
            pred = gen.with_layout(np.array(case["pred"]).astype(case["dtype"]), case["layout"])
            ref = gen.with_layout(np.array(case["ref"]).astype(case["dtype"]), case["layout"])
    bk = case["backend"]
    eff = bk or M.default_backend(pred.ndim)
    differs = any(set(M.cc_partition(a, "scipy")) != set(M.cc_partition(a, "cc3d")) for a in (pred, ref))
    classes = [f"backend={bk}", f"ndim={pred.ndim}", f"dtype={case['dtype']}"]
    if differs:
        classes.append("backends_differ")
    if not pred.any() or not ref.any():
        classes.append("empty_side")
    if case.get("kind") == "many":
        classes.append("many_components")
        mx = max(case["n_pred"], case["n_ref"])
        classes.append("components>255" if mx > 255 else "components<=255")
        differs = differs or mx > 255  # the dtype boundary is the interesting region here
    if case.get("prime"):
        classes.append(f"primed_with_{case['prime']}")
    stats.record(case, differs, classes)
    pc, rc = pred.copy(), ref.copy()
    approx = lib.approximator(bk)
    prime = case.get("prime")
    if prime:
        probe = {"1d": np.array([1, 0, 1], dtype=np.uint8), "2d": np.eye(3, dtype=np.uint8), "3d": np.eye(2, dtype=np.uint8)[None].repeat(2, 0)}[prime]
        H.lib_call(lambda: approx.approximate_instances(SemanticPair(probe.copy(), probe.copy())))
    out = H.lib_call(lambda: approx.approximate_instances(SemanticPair(pred, ref)))
    _check_side("prediction", np.asarray(out.prediction_arr), out.n_prediction_instance, pc, eff)
    _check_side("reference", np.asarray(out.reference_arr), out.n_reference_instance, rc, eff)
    if not (np.array_equal(pred, pc) and np.array_equal(ref, rc)):
        raise Violation("approximation modified the caller's arrays")
