"""C18 - what the aggregator writes is what the statistics loader reads."""
from __future__ import annotations

import math
import os
import shutil
import tempfile

import numpy as np
from hypothesis import strategies as st

from .. import gen, harness as H, lib, refmodel as M
from ..harness import Violation
from .c08 import RES, handler_cfg
from .c12 import _map_to_labels

LEVEL = "exploration"
SUBJ_ALPHABET = "abcXYZ019-_ .,;:\"'()/#%éß中!@$^&*+=[]{}|<>?~\\`"
GROUP_ALPHABET = "abcXYZ019-_ .:()!@$&*+=[]|<>~"
RULE = (
    "Evaluator configurations (input type, matcher, instance-metric subsets of {DSC,IOU,ASSD,RVD}, global-metric subsets, "
    "decision metric, random edge-case handlers producing NaN/INF/None/0/1, aggregator log_times, evaluator "
    "save_group_times) x none or 1-4 class groups named from letters, digits, '-', '_', space, '.', ':', '()' and upper "
    "case x 1-6 subjects named from printable text (incl. quotes, comma, semicolon, dash, non-ASCII; the literal name "
    "'subject_name' is drawn with elevated probability) with inputs realising normal and zero-TP rows. The aggregator "
    "writes the file, make_statistic()/from_file reads it; in a third of the cases the later subjects are written by a forked worker process or by a second aggregator object on the same file, optionally after an interim statistic; finally the file may be continued by an evaluator declaring the same groups in reverse order (refused, or the new row must read back under its own groups). Oracle (round trip): for every subject, group and key of a "
    "direct evaluate(...)[g][0].to_dict() by an independent evaluator of the same configuration, the loaded value is the "
    "bit-identical float, or None when the value is None/NaN/+-inf or absent; group, metric and subject lists equal. "
    "Non-trivial: >=2 groups, or a name with a special character, or a missing value; distinct = distinct canonical case."
)
ASSUMPTIONS = [
    "Pool replaced by a serial order-preserving stand-in (justified by C15)",
    "computation_time cells are checked for presence and parseability only (wall-clock values)",
    "names contain no control characters and are non-empty",
]
BUDGET = {"quick": 100, "thorough": 2000}
BOUNDS = {"groups": "0-4", "subjects": "1-6", "sides": "1-D<=16, 2-D<=8, 3-D<=5"}


@st.composite
def case_strategy(draw):
    grouped = draw(st.integers(0, 3)) > 0
    groups = draw(gen.group_defs(name_alphabet=GROUP_ALPHABET)) if grouped else None
    defined = sorted(l for g in groups for l in g["labels"]) if groups else [1, 2, 3, 4]
    it = draw(st.sampled_from(["SEMANTIC", "UNMATCHED_INSTANCE", "MATCHED_INSTANCE"]))
    imets = draw(st.lists(st.sampled_from(["DSC", "IOU", "ASSD", "RVD"]), min_size=0, max_size=4, unique=True))
    gmets = draw(st.lists(st.sampled_from(["DSC", "IOU", "ASSD", "RVD"]), min_size=0, max_size=3, unique=True))
    dec = None
    if imets and draw(st.integers(0, 2)) == 0:
        dm = draw(st.sampled_from(imets))
        if dm != "RVD":
            dec = [dm, draw(st.sampled_from([0.0, 0.5, 1.0]))]
    hm = sorted(set(imets) | set(gmets))
    handler = draw(handler_cfg(hm)) if draw(st.booleans()) else None
    if handler is None:  # default handler lacks nothing for these metrics
        pass
    kind = draw(st.sampled_from(["naive", "naive", "naive_m2o", "merge"]))
    ns = draw(st.integers(1, 6))
    nms = draw(gen.names(ns, alphabet=SUBJ_ALPHABET, max_size=9))
    if draw(st.integers(0, 7)) == 0:
        nms[draw(st.integers(0, ns - 1))] = "subject_name"
    nms = list(dict.fromkeys(nms))
    if draw(st.integers(0, 2)) == 0:
        nms = draw(gen.subject_name_variants(nms, 6))
    subjects = []
    shape_nd = draw(st.sampled_from([1, 2, 3]))
    for nm in nms:
        special = draw(st.integers(0, 5))
        if special == 0:
            # one long 1-D structure: tiny relative differences are written in exponent notation (5e-05)
            n = draw(st.sampled_from([12000, 20000, 30011]))
            extra = draw(st.integers(1, 3))
            a = defined[0]
            subjects.append({"name": nm, "rle": [[a, a, n], [a, 0, extra], [0, 0, 2]] if draw(st.booleans()) else [[a, a, n], [0, a, extra], [0, 0, 2]]})
            continue
        if special == 1 and groups is None and it != "SEMANTIC":
            # k instances with identical scores: the standard deviation is 0 or ~1e-16
            k = draw(st.integers(3, 5))
            tp_, tr_ = draw(st.sampled_from([([1, 1, 1, 1, 0, 0], [1, 1, 1, 1, 1, 1]), ([1, 1, 0], [1, 1, 1]), ([0, 1, 1, 1, 1], [1, 1, 1, 1, 0]), ([1, 1, 1, 1, 1, 1, 1], [1, 1, 1, 1, 1, 1, 0])]))
            rle = []
            for j in range(k):
                for a_, b_ in zip(tp_, tr_):
                    rle.append([a_ * (j + 1), b_ * (j + 1), 1])
                rle.append([0, 0, 2])
            subjects.append({"name": nm, "rle": rle})
            continue
        pred, ref = draw(gen.pair(ndims=(shape_nd,), k=len(defined), derived_weight=3))
        z = draw(st.sampled_from(["", "", "", "pred", "ref", "both"]))
        if z in ("pred", "both"):
            pred[...] = 0
        if z in ("ref", "both"):
            ref[...] = 0
        subjects.append({"name": nm, "pred": _map_to_labels(pred, defined).tolist(), "ref": _map_to_labels(ref, defined).tolist()})
    return {
        "input": it, "backend": draw(st.sampled_from([None, "cc3d", "scipy"])) if it == "SEMANTIC" else None,
        "matcher": None if it == "MATCHED_INSTANCE" else {"kind": "merge" if kind == "merge" else "naive", "metric": draw(st.sampled_from(["IOU", "DSC"])), "thr": draw(st.sampled_from([0.0, 0.5, 1.0])), "m2o": kind == "naive_m2o"},
        "decision": dec, "imetrics": imets, "gmetrics": gmets, "handler": handler, "groups": groups,
        "log_times": draw(st.booleans()), "save_group_times": draw(st.booleans()),
        "dtype": draw(st.sampled_from(["uint8", "uint16"])), "subjects": subjects,
        "reader": draw(st.sampled_from(["make_statistic", "from_file"])),
        # another evaluator (same instance metrics, other global metrics) is built and asked for its keys first:
        # state shared between evaluators must not reach this aggregator's header
        "prime_gmetrics": draw(st.sampled_from([None, None, [], ["DSC"], ["DSC", "IOU", "RVD"]])),
        # the subjects after index `after` are written by a forked worker process / by a second aggregator object on
        # the same file, optionally after an interim statistic was taken from the first aggregator
        "split": {"after": draw(st.integers(1, 3)), "writer": draw(st.sampled_from(["fork", "second_object"])), "interim_stat": draw(st.booleans())} if draw(st.integers(0, 2)) == 0 else None,
        # afterwards the file is continued by an evaluator that declares the same groups in another order
        "reorder_continue": draw(st.booleans()),
    }


def searches(tier):
    return [("roundtrip", case_strategy(), BUDGET[tier])]


def cfg_of(case):
    return {"input": case["input"], "backend": case["backend"], "matcher": case["matcher"], "decision": case["decision"],
            "imetrics": case["imetrics"], "gmetrics": case["gmetrics"], "handler": case["handler"], "groups": case["groups"],
            "flags": {"save_group_times": case["save_group_times"]}}


def expected_cell(v):
    if v is None:
        return None
    try:
        f = float(v)
    except (TypeError, ValueError):
        return "?"
    return f if math.isfinite(f) else None


def check(case, stats):
    from panoptica import Panoptica_Aggregator, Panoptica_Statistic

    cfg = cfg_of(case)
    gnames = [g["name"].lower() for g in case["groups"]] if case["groups"] else ["ungrouped"]
    special = any(any(not (c.isalnum() and c.isascii()) for c in n) for n in gnames + [s["name"] for s in case["subjects"]])
    d = tempfile.mkdtemp(prefix="pv_c18_")
    try:
        out = os.path.join(d, "results.tsv")
        if case.get("prime_gmetrics") is not None:
            with H.quiet():
                H.lib_call(lambda: lib.evaluator({**cfg, "gmetrics": case["prime_gmetrics"], "handler": None, "groups": None}).resulting_metric_keys)
        ev = lib.evaluator(cfg)
        agg = H.lib_call(lambda: Panoptica_Aggregator(ev, output_file=out, log_times=case["log_times"]))
        ev2 = lib.evaluator(cfg)
        expected = {}
        split = case.get("split")
        if split and split["after"] >= len(case["subjects"]):
            split = None
        writer = agg
        later = []
        for idx, s in enumerate(case["subjects"]):
            if "rle" in s:
                pred = np.concatenate([np.full(n, a) for a, b, n in s["rle"]]).astype(case["dtype"])
                ref = np.concatenate([np.full(n, b) for a, b, n in s["rle"]]).astype(case["dtype"])
            else:
                pred = np.array(s["pred"]).astype(case["dtype"])
                ref = np.array(s["ref"]).astype(case["dtype"])
            if split and idx == split["after"]:
                if split["interim_stat"]:
                    H.lib_call(agg.make_statistic)
                if split["writer"] == "second_object":
                    writer = H.lib_call(lambda: Panoptica_Aggregator(lib.evaluator(cfg), output_file=out, log_times=case["log_times"]))
            if split and idx >= split["after"] and split["writer"] == "fork":
                later.append((pred, ref, s["name"]))
            else:
                H.lib_call(writer.evaluate, pred, ref, s["name"])
            res = H.lib_call(ev2.evaluate, pred, ref)
            with H.quiet():
                expected[s["name"]] = {g: dict(res[g][0].to_dict()) for g in gnames}
        if later:
            import sys

            sys.stdout.flush()
            pid = os.fork()
            if pid == 0:  # a worker process forked from the one that owns the aggregator
                code = 0
                try:
                    for p_, r_, n_ in later:
                        agg.evaluate(p_, r_, n_)
                except BaseException:  # noqa
                    code = 1
                finally:
                    os._exit(code)
            if os.waitpid(pid, 0)[1] != 0:
                raise Violation(f"a forked worker process failed to record subjects {[n for _, _, n in later]} through the inherited aggregator")
            stats.count("subjects_written_by_a_forked_worker", len(later))
        if split:
            stats.count(f"split_sessions:{split['writer']}{'+interim_statistic' if split['interim_stat'] else ''}")
        if case["reader"] == "make_statistic":
            stat = H.lib_call(agg.make_statistic)
        else:
            stat = H.lib_call(Panoptica_Statistic.from_file, out)
        missing = False
        exponent_form = False
        if sorted(stat.groupnames) != sorted(gnames):
            raise Violation(f"loaded group names {sorted(stat.groupnames)} != evaluator groups {sorted(gnames)}")
        if sorted(stat.subjectnames) != sorted(s["name"] for s in case["subjects"]):  # row order is not part of the property
            raise Violation(f"loaded subjects {stat.subjectnames} != submitted {[s['name'] for s in case['subjects']]}")
        keys = list(lib.evaluator(cfg).resulting_metric_keys)
        want_metrics = keys + (["computation_time"] if case["log_times"] else [])
        if sorted(stat.metricnames) != sorted(want_metrics):  # column order is not part of the property
            raise Violation(f"loaded metric names {stat.metricnames} != evaluator's metric keys {want_metrics}")
        for s in case["subjects"]:
            one = H.lib_call(stat.get_one_subject, s["name"])
            for g in gnames:
                exp = expected[s["name"]][g]
                for k, v in exp.items():
                    if k == "computation_time":
                        continue
                    if k not in one[g]:
                        raise Violation(f"value {k} reported for subject {s['name']!r} group {g!r} has no column in the file")
                    want = expected_cell(v)
                    got = one[g][k]
                    if isinstance(want, float) and want != 0 and "e" in repr(want):
                        exponent_form = True
                    if want is None:
                        missing = True
                    ok = (want is None and got is None) or (want is not None and got is not None and got == want)
                    if not ok:
                        raise Violation(f"subject {s['name']!r} group {g!r} metric {k}: result reports {v!r}, statistics loader returns {got!r}")
                for k in one[g]:
                    if k not in exp and k != "computation_time" and one[g][k] is not None:
                        raise Violation(f"subject {s['name']!r} group {g!r}: loader returns {one[g][k]!r} for {k}, which the result does not report")
        if case.get("reorder_continue") and case["groups"] and len(case["groups"]) >= 2:
            # the same file continued by an evaluator that declares the groups in reverse order: either refused, or the
            # new subject's values must still be found under their own group and metric
            cfg_r = {**cfg, "groups": list(reversed(case["groups"]))}
            try:
                with H.quiet():
                    agg_r = Panoptica_Aggregator(lib.evaluator(cfg_r), output_file=out, log_times=case["log_times"])
            except Exception:  # noqa - refusing a file written by another setup is the documented behaviour
                stats.count("reordered_groups_refused")
            else:
                s0 = case["subjects"][0]
                if "rle" in s0:
                    pred = np.concatenate([np.full(n, a) for a, b, n in s0["rle"]]).astype(case["dtype"])
                    ref = np.concatenate([np.full(n, b) for a, b, n in s0["rle"]]).astype(case["dtype"])
                else:
                    pred, ref = np.array(s0["pred"]).astype(case["dtype"]), np.array(s0["ref"]).astype(case["dtype"])
                extra = "extra subject " + str(len(case["subjects"]))
                while extra in expected:
                    extra += "x"
                H.lib_call(agg_r.evaluate, pred, ref, extra)
                one = H.lib_call(H.lib_call(Panoptica_Statistic.from_file, out).get_one_subject, extra)
                for g in gnames:
                    for k, v in expected[s0["name"]][g].items():
                        if k == "computation_time":
                            continue
                        want, got = expected_cell(v), one[g].get(k)
                        if not ((want is None and got is None) or (want is not None and got is not None and got == want)):
                            raise Violation(f"file continued by an evaluator declaring the groups in another order: subject {extra!r} group {g!r} metric {k}: result reports {v!r}, statistics loader returns {got!r}")
                stats.count("reordered_groups_accepted_and_read_back")
        stats.record(case, len(gnames) >= 2 or special or missing,
                     [f"groups={len(gnames) if case['groups'] else 0}", f"subjects={len(case['subjects'])}", f"input={case['input']}"]
                     + (["special_name"] if special else []) + (["missing_value"] if missing else [])
                     + (["dash_in_group"] if any("-" in g for g in gnames) else []) + (["value_in_exponent_notation"] if exponent_form else [])
                     + (["subject_named_subject_name"] if any(s["name"] == "subject_name" for s in case["subjects"]) else []))
    finally:
        shutil.rmtree(d, ignore_errors=True)
