"""C07 - ASSD equals the mean of the two directed average surface distances."""
from __future__ import annotations

import itertools

import numpy as np
from hypothesis import strategies as st

from .. import gen, harness as H, lib, refmodel as M
from ..harness import Violation

LEVEL = "exploration"
RULE = (
    "Pairs of non-empty binary masks in 1-3-D (sides <=12/8/5): random, single-voxel, one-voxel-thick lines/sheets, "
    "border-touching, disjoint, nested (erosion/dilation-derived), in C/Fortran/negative-stride/transposed/strided layouts, "
    "called un-indexed, indexed by label, and through the matched-instance pipeline (per-instance crop); long 1-D and "
    "2-row masks given as runs with objects up to 70000 voxels apart. Exhaustive: all "
    "pairs of non-empty 1-D masks up to length 5 (quick) / 7 (thorough), all 2x2 (quick) / 2x3 (thorough) mask pairs. "
    "Oracle: brute-force nearest-border-voxel distances on coordinate sets (tol 1e-9) + symmetry, non-negativity, zero iff "
    "borders coincide, invariance under zero padding (0-3 per side) and cropping to the joint bounding box. Non-trivial: "
    "borders differ and (a mask has an interior voxel or the masks are disjoint); distinct = distinct canonical case."
)
ASSUMPTIONS = ["tolerance 1e-9 on ASSD (summation order of the library's numpy mean differs from math.fsum)"]
BUDGET = {"quick": 300, "thorough": 6000}
BOUNDS = {"sides": "1-D<=12, 2-D<=8, 3-D<=5", "padding": "0..3 per side"}
TOL = 1e-9


@st.composite
def mask_pair(draw):
    shape = draw(gen.shapes((1, 2, 3), max1=12, max2=8, max3=5))
    kind = draw(st.sampled_from(["free", "free", "boxes", "nested", "thin", "single", "disjoint", "pair"]))
    if kind == "free":
        ref = draw(gen.free_map(shape, k=1, density=draw(st.integers(1, 4))))
        pred = draw(gen.free_map(shape, k=1, density=draw(st.integers(1, 4))))
    elif kind == "boxes":
        ref = draw(gen.box_map(shape, k=2))
        pred = draw(gen.box_map(shape, k=2))
    elif kind == "nested":
        ref = draw(gen.box_map(shape, k=2))
        m = ref != 0
        pred = (gen._erode_face(m) if draw(st.booleans()) else gen._dilate_face(m)).astype(np.int64)
    elif kind == "thin":
        ref = np.zeros(shape, dtype=np.int64)
        pred = np.zeros(shape, dtype=np.int64)
        for a in (ref, pred):
            sl = []
            thin_ax = draw(st.integers(0, len(shape) - 1))
            for ax, s in enumerate(shape):
                lo = draw(st.integers(0, s - 1))
                ext = 1 if ax == thin_ax else draw(st.integers(1, s - lo))
                sl.append(slice(lo, lo + ext))
            a[tuple(sl)] = 1
    elif kind == "single":
        ref = np.zeros(shape, dtype=np.int64)
        pred = draw(gen.box_map(shape, k=2))
        ref[tuple(draw(st.integers(0, s - 1)) for s in shape)] = 1
        if draw(st.booleans()):
            pred = np.zeros(shape, dtype=np.int64)
            pred[tuple(draw(st.integers(0, s - 1)) for s in shape)] = 1
    elif kind == "disjoint":
        ref = draw(gen.box_map(shape, k=2))
        pred = draw(gen.free_map(shape, k=1, density=2))
        pred[ref != 0] = 0
    else:
        pred, ref = draw(gen.pair(ndims=(len(shape),), k=3))
        shape = list(ref.shape)
    ref, pred = gen.binar(ref), gen.binar(pred)
    # non-empty by construction: put one voxel if empty
    for a in (ref, pred):
        if a.sum() == 0:
            a[tuple(draw(st.integers(0, s - 1)) for s in a.shape)] = 1
    pads = [[draw(st.integers(0, 3)), draw(st.integers(0, 3))] for _ in ref.shape]
    return {
        "kind": "direct",
        "ref": ref.tolist(),
        "pred": pred.tolist(),
        "dtype": draw(st.sampled_from(["bool", "uint8", "int64", "uint16"])),
        "layout": draw(st.sampled_from(gen.LAYOUTS)),
        "pads": pads,
        "label": draw(st.sampled_from([None, None, 1, 3, 200, 200001])),
    }


@st.composite
def pipeline_case(draw):
    pred, ref = draw(gen.pair(k=4, derived_weight=4))
    return {"kind": "pipeline", "ref": ref.tolist(), "pred": pred.tolist(), "dtype": draw(st.sampled_from(["uint8", "uint16", "uint32"]))}


@st.composite
def far_case(draw):
    """Long 1-D (or thin 2-D) masks given as runs: objects tens of thousands of voxels apart."""
    runs = []
    for _ in range(draw(st.integers(2, 6))):
        n = draw(st.sampled_from([1, 2, 3, 7, 100, 1000, 46340, 46341, 50000, 70000]))
        a, b = draw(st.sampled_from([0, 0, 1])), draw(st.sampled_from([0, 0, 1]))
        if n >= 1000 and draw(st.integers(0, 2)) > 0:
            a = b = 0
        runs.append([a, b, n])
    return {"kind": "far", "runs": runs, "thin2d": draw(st.booleans()), "dtype": draw(st.sampled_from(["bool", "uint8"]))}


def searches(tier):
    n = BUDGET[tier]
    return [("direct", mask_pair(), n * 3 // 4), ("pipeline", pipeline_case(), n // 4), ("far_apart", far_case(), max(6, n // 25))]


def check_far(case, stats):
    pred = np.concatenate([np.full(n, a, dtype=np.int64) for a, b, n in case["runs"]])
    ref = np.concatenate([np.full(n, b, dtype=np.int64) for a, b, n in case["runs"]])
    if not pred.any():
        pred[0] = 1
    if not ref.any():
        ref[-1] = 1
    # brute force on run ends only: in 1-D the border voxels are the first and last voxel of every run
    def borders(a):
        idx = np.flatnonzero(a)
        first = np.r_[True, np.diff(idx) != 1]   # no foreground voxel directly before
        last = np.r_[np.diff(idx) != 1, True]    # no foreground voxel directly after
        return idx[first | last]
    bp, br = borders(pred), borders(ref)
    def asd(x, y):
        ys = np.sort(y)
        pos = np.searchsorted(ys, x)
        lo = np.abs(x - ys[np.clip(pos - 1, 0, len(ys) - 1)])
        hi = np.abs(ys[np.clip(pos, 0, len(ys) - 1)] - x)
        return float(np.mean(np.minimum(lo, hi).astype(np.float64)))
    want = 0.5 * (asd(bp, br) + asd(br, bp))
    def far(x, y):
        ys = np.sort(y)
        pos = np.searchsorted(ys, x)
        return float(np.max(np.minimum(np.abs(x - ys[np.clip(pos - 1, 0, len(ys) - 1)]), np.abs(ys[np.clip(pos, 0, len(ys) - 1)] - x))))
    gap = max(far(bp, br), far(br, bp))
    stats.record(case, not np.array_equal(bp, br), ["far_apart", f"max_gap>{46340 if gap > 46340 else 0}"])
    if case["thin2d"]:
        # thin 2-D arrays: every voxel of a 1-voxel-thick row is a border voxel (out-of-array neighbours),
        # so use two rows, where the 1-D border structure is preserved along the long axis only if the
        # object is two rows thick: interior voxels then exist; compute the brute-force value on that array
        p2, r2 = np.stack([pred, pred]), np.stack([ref, ref])
        want2 = want  # rows are identical copies; every voxel touches the array border along axis 0
        bp2 = np.flatnonzero(pred)
        br2 = np.flatnonzero(ref)
        want2 = 0.5 * (asd(bp2, br2) + asd(br2, bp2))
        got = _assd(r2.astype(case["dtype"]), p2.astype(case["dtype"]))
        if not H.same_value(got, want2, TOL):
            raise Violation(f"ASSD={got!r} on a 2 x {len(pred)} array, brute force gives {want2!r} (largest gap {gap})")
        return
    got = _assd(ref.astype(case["dtype"]), pred.astype(case["dtype"]))
    if not H.same_value(got, want, TOL):
        raise Violation(f"ASSD={got!r} on a 1-D array of {len(pred)} voxels, brute force gives {want!r} (largest gap {gap})")


def _all_masks(shape):
    n = int(np.prod(shape))
    for bits in range(1, 2**n):
        yield np.array([(bits >> i) & 1 for i in range(n)], dtype=np.int64).reshape(shape)


def enumerations(tier):
    shapes1 = range(1, 6) if tier == "quick" else range(1, 8)
    def gen1():
        for L in shapes1:
            for r in _all_masks((L,)):
                for p in _all_masks((L,)):
                    yield {"kind": "direct", "ref": r.tolist(), "pred": p.tolist(), "dtype": "uint8", "layout": "C", "pads": [[0, 0]], "label": None, "enum": True}
    def gen2():
        shp = (2, 2) if tier == "quick" else (2, 3)
        for r in _all_masks(shp):
            for p in _all_masks(shp):
                yield {"kind": "direct", "ref": r.tolist(), "pred": p.tolist(), "dtype": "uint8", "layout": "C", "pads": [[0, 0], [0, 0]], "label": None, "enum": True}
    return [("1d_all_pairs", gen1()), ("2d_all_pairs", gen2())]


def _assd(ref, pred, label=None):
    from panoptica.metrics import Metric

    if label is None:
        return float(H.lib_call(Metric.ASSD, ref, pred))
    got = float(H.lib_call(Metric.ASSD, ref, pred, label, label))
    # the instance-level function behind Metric.ASSD takes the two labels itself (Metric.__call__ pre-selects)
    import panoptica.metrics as pm

    direct = float(H.lib_call(pm._compute_instance_average_symmetric_surface_distance, ref, pred, label, label))
    if not H.same_value(direct, got, 1e-12):
        raise Violation(f"_compute_instance_average_symmetric_surface_distance(ref, pred, {label}, {label})={direct!r} but Metric.ASSD(ref, pred, {label}, {label})={got!r}")
    # different labels on the two sides, plus a distractor instance carrying the other side's label
    l2 = label + 1
    pred2 = np.where(pred == label, l2, 0).astype(pred.dtype)
    ref2 = ref.copy()
    free = np.argwhere((ref2 == 0) & (pred2 == 0))
    if len(free):
        ref2[tuple(free[0])] = l2
        pred2[tuple(free[-1])] = label
    if pred2.dtype == np.uint8:
        # the two arrays need not share a dtype: a 16-bit prediction whose labels do not fit the reference's 8 bit
        pred2 = np.where(pred2 == l2, l2 + 256, pred2.astype(np.uint16)).astype(np.uint16)
        l2 = l2 + 256
    direct2 = float(H.lib_call(pm._compute_instance_average_symmetric_surface_distance, ref2, pred2, label, l2))
    via2 = float(H.lib_call(Metric.ASSD, ref2, pred2, label, l2))
    if not (H.same_value(direct2, got, 1e-12) and H.same_value(via2, got, 1e-12)):
        raise Violation(f"ASSD of reference label {label} and prediction label {l2} (with distractors carrying the opposite labels): instance-level function {direct2!r}, Metric.ASSD {via2!r}, same masks alone {got!r}")
    return got


def check(case, stats):
    if case["kind"] == "pipeline":
        return check_pipeline(case, stats)
    if case["kind"] == "far":
        return check_far(case, stats)
    ref0 = np.array(case["ref"], dtype=np.int64)
    pred0 = np.array(case["pred"], dtype=np.int64)
    shape = ref0.shape
    X, Y = M.foreground(pred0), M.foreground(ref0)
    bX, bY = M.border(X, shape), M.border(Y, shape)
    want = M.assd(X, Y, shape)
    interior = len(bX) < len(X) or len(bY) < len(Y)
    nontrivial = bX != bY and (interior or not (X & Y))
    classes = [f"ndim={len(shape)}", f"layout={case['layout']}", f"dtype={case['dtype']}"]
    if not (X & Y):
        classes.append("disjoint")
    if X < Y or Y < X:
        classes.append("nested")
    if len(X) == 1 or len(Y) == 1:
        classes.append("single_voxel")
    if any(0 in c or any(ci == s - 1 for ci, s in zip(c, shape)) for c in X | Y):
        classes.append("touches_array_border")
    if interior:
        classes.append("has_interior")
    stats.record(case, nontrivial, classes)

    label = case.get("label")
    dt = case["dtype"]
    if label is not None and dt == "bool":
        label = None
    if label is not None and label > 60000:
        dt = "int64"  # labels far from zero need a wide dtype
    mult = 1 if label is None else label
    ref = gen.with_layout((ref0 * mult).astype(dt), case["layout"])
    pred = gen.with_layout((pred0 * mult).astype(dt), case["layout"])
    got = _assd(ref, pred, label)
    if not H.same_value(got, want, TOL):
        raise Violation(f"ASSD={got!r}, brute force gives {want!r}")
    if got < 0:
        raise Violation(f"ASSD negative: {got!r}")
    if (got == 0.0) != (bX == bY):
        raise Violation(f"ASSD={got!r} but borders coincide={bX == bY}")
    sym = _assd(pred, ref, label)
    if not H.same_value(sym, got, TOL):
        raise Violation(f"ASSD not symmetric: {got!r} vs {sym!r}")
    if case.get("enum"):
        return
    # zero padding (embedding in a larger array)
    pads = [tuple(p) for p in case["pads"]]
    if any(a or b for a, b in pads):
        rp = np.pad((ref0 * mult).astype(dt), pads)
        pp = np.pad((pred0 * mult).astype(dt), pads)
        g2 = _assd(rp, pp, label)
        # padding turns array-border contact into an ordinary background neighbour: the border set is
        # unchanged by definition (out-of-array counts as background), so the value must not move
        if not H.same_value(g2, want, TOL):
            raise Violation(f"ASSD changes under zero padding {pads}: {got!r} -> {g2!r} (brute force {want!r})")
    # crop to the joint bounding box
    nz = np.nonzero((ref0 != 0) | (pred0 != 0))
    sl = tuple(slice(int(i.min()), int(i.max()) + 1) for i in nz)
    g3 = _assd((ref0 * mult).astype(dt)[sl], (pred0 * mult).astype(dt)[sl], label)
    if not H.same_value(g3, want, TOL):
        raise Violation(f"ASSD changes under cropping to the joint bounding box: {got!r} -> {g3!r}")


def check_pipeline(case, stats):
    """Matched input: get_list_metric(ASSD, ALL) must hold the brute-force ASSD of every
    label present on both sides (per-instance crop path)."""
    from panoptica.metrics import Metric, MetricMode

    ref = np.array(case["ref"], dtype=case["dtype"])
    pred = np.array(case["pred"], dtype=case["dtype"])
    ri, pi = M.instances(ref), M.instances(pred)
    both = sorted(set(ri) & set(pi))
    want = [M.assd(pi[l], ri[l], ref.shape) for l in both]
    nontrivial = any(w > 0 for w in want)
    stats.record(case, nontrivial, ["pipeline", f"ndim={ref.ndim}", f"matched={min(len(both), 3)}"])
    if not both:
        return
    ev = lib.evaluator({"input": "MATCHED_INSTANCE", "imetrics": ["ASSD"], "gmetrics": []})
    res = H.lib_call(ev.evaluate, pred, ref)["ungrouped"][0]
    got = [float(x) for x in res.get_list_metric(Metric.ASSD, MetricMode.ALL)]
    if not H.same_multiset(got, want, TOL):
        raise Violation(f"pipeline ASSD list {sorted(got)} != brute force {sorted(want)} for labels {both}")
