"""C10 - invariance under padding, translation, flips, axis permutation, memory layout."""
from __future__ import annotations

import numpy as np
from hypothesis import strategies as st

from .. import gen, harness as H, lib, meta, pipemodel as PM, refmodel as M
from ..harness import Violation
from . import c01

LEVEL = "exploration"
RULE = (
    "Base pair (1-3-D, derived predictions, all input types, threshold/many-to-one/merge matchers, optional decision "
    "metric, instance metrics DSC/IOU/ASSD/RVD, global metrics DSC/IOU/ASSD) and three transformed copies per case: crop "
    "to the joint bounding box (optional), zero-pad 0-4 voxels per side (asymmetric = translation), flip any subset of "
    "axes, permute the axes, then store as C / Fortran / negative-stride / transposed / strided view. Oracle "
    "(metamorphic): complete observation equal to the base run when the reference model says the matching is uniquely "
    "determined, otherwise only tie-independent fields (flips renumber connected components and may reorder tied "
    "candidates) - except for caller-labelled instances matched by IoU or Dice, where ties are resolved by label order and scores are exact: there the complete observation must be invariant (a dedicated family builds exactly tied candidates of different volume). Non-trivial: tp>0 in the base run and the transformation is not the identity; distinct = distinct "
    "canonical case."
)
ASSUMPTIONS = [
    "Pool replaced by a serial order-preserving stand-in (justified by C15)",
    "uniqueness decided by the reference model; tolerance 1e-12 (overlap metrics) / 1e-9 (ASSD, aggregates)",
]
BUDGET = {"quick": 300, "thorough": 3000}
BOUNDS = {"sides": "1-D<=16, 2-D<=8, 3-D<=5", "padding": "0..4 per side"}


def prepare(tier):
    lib.install_assd_snap()


@st.composite
def transform(draw, ndim):
    return {
        "crop": draw(st.booleans()),
        "pads": [[draw(st.integers(0, 4)), draw(st.integers(0, 4))] if draw(st.booleans()) else [0, 0] for _ in range(ndim)],
        "flips": [draw(st.booleans()) for _ in range(ndim)],
        "perm": list(draw(st.permutations(list(range(ndim))))),
        "layout": draw(st.sampled_from(gen.LAYOUTS)),
    }


@st.composite
def case_strategy(draw):
    case = draw(c01.case_strategy(allow_rle=True))
    if case["matcher"] is not None:
        kind = draw(st.sampled_from(["naive", "naive", "naive_m2o", "merge"]))
        case["matcher"]["kind"] = "merge" if kind == "merge" else "naive"
        case["matcher"]["m2o"] = kind == "naive_m2o"
    nd = 1 if "rle" in case else np.array(case["ref"]).ndim
    case["transforms"] = [draw(transform(nd)) for _ in range(3)]
    case["gmetrics"] = ["DSC", "IOU", "ASSD"]
    return case


@st.composite
def tie_case(draw):
    """Caller-labelled instances with exactly tied candidates: the tie is resolved by label order, which no
    transformation changes."""
    pred, ref = draw(gen.tie_instance_pair())
    mm = draw(st.sampled_from(["IOU", "DSC"]))
    kind = draw(st.sampled_from(["naive", "naive", "naive_m2o", "merge"]))
    case = {"pred": pred.tolist(), "ref": ref.tolist(), "dtype": draw(st.sampled_from(["uint8", "uint16", "uint64"])), "input": "UNMATCHED_INSTANCE", "backend": None,
            "matcher": {"kind": "merge" if kind == "merge" else "naive", "metric": mm, "thr": {"v": draw(st.sampled_from([0.0, 0.25, 1.0 / 3.0] if mm == "IOU" else [0.0, 0.4, 0.5]))}, "m2o": kind == "naive_m2o"},
            "decision": None, "layout": "C", "primes": []}
    case["transforms"] = [draw(transform(pred.ndim)) for _ in range(3)]
    case["gmetrics"] = ["DSC", "IOU", "ASSD"]
    return case


def searches(tier):
    return [("transform", case_strategy(), BUDGET[tier]), ("tied_candidates", tie_case(), max(20, BUDGET[tier] // 6))]


def apply(t, pred, ref):
    if t["crop"]:
        nz = np.nonzero((pred != 0) | (ref != 0))
        if len(nz[0]):
            sl = tuple(slice(int(i.min()), int(i.max()) + 1) for i in nz)
            pred, ref = pred[sl], ref[sl]
    out = []
    for a in (pred, ref):
        a = np.pad(a, [tuple(p) for p in t["pads"]])
        for ax, f in enumerate(t["flips"]):
            if f:
                a = np.flip(a, axis=ax)
        a = np.transpose(a, t["perm"])
        out.append(gen.with_layout(np.ascontiguousarray(a), t["layout"]))
    return out


def is_identity(t, shape):
    return not t["crop"] and all(p == [0, 0] for p in t["pads"]) and not any(f and s > 1 for f, s in zip(t["flips"], shape)) and t["perm"] == sorted(t["perm"]) and t["layout"] == "C"


def check(case, stats):
    lib.run_primes(case.get("primes"))
    pred, ref, cfg = c01.resolve(case)
    cfg["gmetrics"] = case.get("gmetrics", [])
    # voxel order changes under the transformations, so an ASSD score exactly at a threshold may move by an ulp
    exps, complete, info = PM.expected_results(pred, ref, cfg, assd_exact_ok=False)
    unique = complete and len(exps) == 1
    # With instance labels given by the caller, tied candidates are resolved by label order, which no transformation
    # touches; IoU and Dice are computed from voxel counts, so their scores are bit-identical after any transformation.
    # Then the whole result must be invariant even when the reference model sees several tie orders. (Semantic input
    # gets its instance labels from the component scan order, and ASSD scores may move by an ulp.)
    label_tiebreak = (cfg["input"] == "UNMATCHED_INSTANCE" and bool(cfg.get("matcher")) and cfg["matcher"]["metric"] in ("IOU", "DSC")
                      and not (cfg.get("decision") and cfg["decision"][0] == "ASSD"))
    ev = lib.evaluator(cfg)
    base = meta.observe(H.lib_call(ev.evaluate, pred, ref)["ungrouped"][0])
    tp = base["dict"].get("tp", 0)
    on_border = bool(pred.size) and any((np.take(a, [0, -1], axis=ax) != 0).any() for a in (pred, ref) for ax in range(a.ndim))
    for t in case["transforms"]:
        classes = [f"input={cfg['input']}", f"layout={t['layout']}", "unique" if unique else "ambiguous"]
        if t["crop"]:
            classes.append("crop")
        if any(t["flips"]):
            classes.append("flip")
        if t["perm"] != sorted(t["perm"]):
            classes.append(f"perm{len(t['perm'])}d")
        if on_border:
            classes.append("object_on_array_border")
        ident = is_identity(t, pred.shape)
        stats.record({"base": {k: v for k, v in case.items() if k != "transforms"}, "t": t}, tp > 0 and not ident, classes)
        p2, r2 = apply(t, pred, ref)
        p2c, r2c = p2.copy(), r2.copy()
        ev2 = lib.evaluator(cfg)
        tr = meta.observe(H.lib_call(ev2.evaluate, p2, r2)["ungrouped"][0])
        only = None if unique or label_tiebreak else ("num_ref_instances", "global_bin_dsc", "global_bin_iou", "global_bin_assd")
        if not unique and label_tiebreak:
            stats.count("ambiguous_cases_compared_completely")
        msg = meta.diff(base, tr, only=only)
        if msg:
            raise Violation(f"result changes under transformation {t}: {msg}")
        if not (np.array_equal(p2, p2c) and np.array_equal(r2, r2c)):
            raise Violation(f"evaluate modified the caller's arrays (layout {t['layout']})")
