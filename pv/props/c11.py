"""C11 - exchanging prediction and reference mirrors the result."""
from __future__ import annotations

import itertools

import numpy as np
from hypothesis import strategies as st

from .. import gen, harness as H, lib, meta, pipemodel as PM, refmodel as M
from ..harness import Violation
from . import c01

LEVEL = "exploration"
RULE = (
    "Label-map pairs (1-3-D, derived predictions) x input types x one-to-one threshold matcher with IoU/Dice/ASSD and "
    "thresholds incl. exact candidate scores x optional symmetric decision metric; each evaluated as (pred, ref) and as "
    "(ref, pred). Exhaustive: all 1-D unmatched pairs up to length 4 (quick) / 5 (thorough) over {0,1,2} at IoU>=1/2 and "
    ">=1/3. Oracle (metamorphic, when the model finds the matching uniquely determined): same tp; fp and fn exchanged; "
    "equal multisets of (IoU, Dice, ASSD) tuples; RVD values mapped by r -> -r/(1+r); equal rq, sq, pq. Non-trivial: "
    "tp>0 and (fp != fn or some RVD != 0); distinct = distinct canonical case."
)
ASSUMPTIONS = [
    "Pool replaced by a serial order-preserving stand-in (justified by C15)",
    "uniqueness decided by the reference model; tolerances 1e-12 (IoU/Dice), 1e-9 (ASSD, RVD mapping, aggregates)",
]
BUDGET = {"quick": 300, "thorough": 5000}
BOUNDS = {"sides": "1-D<=16, 2-D<=8, 3-D<=5"}
SYM = ["IOU", "DSC", "ASSD"]


def prepare(tier):
    lib.install_assd_snap()


@st.composite
def case_strategy(draw):
    case = draw(c01.case_strategy(allow_rle=True))
    return case


@st.composite
def close_candidates_case(draw):
    """Caller-labelled instances in which one instance overlaps two instances of the other side with equal or
    nearly equal scores (exchanging the roles turns 'two candidates of one reference' into 'one prediction wanted by
    two references')."""
    pred, ref = draw(gen.tie_instance_pair())
    if draw(st.booleans()):
        pred, ref = ref, pred
    mm = draw(st.sampled_from(["IOU", "DSC"]))
    return {"pred": pred.tolist(), "ref": ref.tolist(), "dtype": draw(st.sampled_from(["uint8", "uint16"])), "input": "UNMATCHED_INSTANCE", "backend": None,
            "matcher": {"kind": "naive", "metric": mm, "thr": {"v": draw(st.sampled_from([0.0, 0.25, 0.3] if mm == "IOU" else [0.0, 0.4, 0.45]))}, "m2o": False},
            "decision": None, "layout": "C", "primes": []}


def searches(tier):
    return [("exchange", case_strategy(), BUDGET[tier]), ("close_candidates", close_candidates_case(), max(20, BUDGET[tier] // 6))]


def enumerations(tier):
    def g():
        Ls = range(1, 5) if tier == "quick" else range(1, 6)
        for L in Ls:
            maps = [list(v) for v in itertools.product((0, 1, 2), repeat=L)]
            for i, r in enumerate(maps):
                for p in maps[i:]:
                    for thr in (0.5, 1.0 / 3.0):
                        yield {"pred": p, "ref": r, "dtype": "uint8", "input": "UNMATCHED_INSTANCE", "backend": None,
                               "matcher": {"kind": "naive", "metric": "IOU", "thr": {"v": thr}, "m2o": False}, "decision": None, "enum": True}
    return [("1d_unmatched_over_012", g())]


def check(case, stats):
    lib.run_primes(case.get("primes"))
    pred, ref, cfg = c01.resolve(case)
    cfg["imetrics"] = PM.METRICS  # the mirror relation is stated over all four metrics
    exps, complete, info = PM.expected_results(pred, ref, cfg)
    unique = complete and len(exps) == 1
    ev = lib.evaluator(cfg)
    a = PM.lib_result(H.lib_call(ev.evaluate, pred, ref)["ungrouped"][0])
    b = PM.lib_result(H.lib_call(lib.evaluator(cfg).evaluate, ref, pred)["ungrouped"][0])
    rv = a["lists"]["RVD"]
    nontrivial = a["tp"] > 0 and (a["fp"] != a["fn"] or any(r != 0 for r in rv))
    stats.record(case, nontrivial, [f"input={cfg['input']}", "unique" if unique else "ambiguous", f"ndim={ref.ndim}"])
    if a["num_pred_instances"] != b["num_ref_instances"] or a["num_ref_instances"] != b["num_pred_instances"]:
        raise Violation(f"instance counts not exchanged: {a['num_pred_instances']}/{a['num_ref_instances']} vs {b['num_pred_instances']}/{b['num_ref_instances']}")
    if not unique:
        return
    if a["tp"] != b["tp"]:
        raise Violation(f"tp differs after exchanging prediction and reference: {a['tp']} vs {b['tp']}")
    if a["fp"] != b["fn"] or a["fn"] != b["fp"]:
        raise Violation(f"fp/fn not exchanged: {a['fp']}/{a['fn']} vs {b['fp']}/{b['fn']}")
    ra, rb = PM.rows_of(a, SYM), PM.rows_of(b, SYM)
    if ra is None or rb is None or not PM.rows_equal(ra, rb, SYM):
        raise Violation(f"per-instance (IoU, Dice, ASSD) values differ after exchange: {sorted(ra or [])} vs {sorted(rb or [])}")
    mapped = sorted(-r / (1 + r) for r in a["lists"]["RVD"])
    if not H.same_multiset(mapped, sorted(b["lists"]["RVD"]), 1e-9):
        raise Violation(f"RVD values {sorted(a['lists']['RVD'])} should map to {mapped} after exchange, got {sorted(b['lists']['RVD'])}")
    if a["tp"] > 0:
        for k in ("rq", "sq", "sq_std", "pq", "sq_dsc", "sq_dsc_std", "pq_dsc", "sq_assd", "sq_assd_std"):
            if not H.same_value(a[k], b[k], 1e-9):
                raise Violation(f"{k} differs after exchange: {a[k]!r} vs {b[k]!r}")
    stats.count("mirrored_compared")
