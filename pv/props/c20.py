"""C20 - dataset summaries are the statistics of exactly the recorded finite values."""
from __future__ import annotations

import csv
import math
import os
import shutil
import tempfile

import numpy as np
from hypothesis import strategies as st

from .. import gen, harness as H, lib, refmodel as M
from ..harness import Violation

LEVEL = "exploration"
RULE = (
    "Result tables generated directly: 1-4 groups x 1-5 metrics x 1-12 uniquely named subjects, every cell drawn from "
    "{finite float (incl. subnormal, 1e-300..1e100, negative), integer, empty, nan, inf, -inf}, written in the "
    "aggregator's TSV layout and loaded with Panoptica_Statistic.from_file; the same table with rows permuted; the same "
    "values passed to the constructor directly (None for missing); after a generated history of 0-6 read-only queries "
    "(get, get_across_groups, get_summary_dict, get_one_subject, ...) every answer is checked again. Oracle: for every (group, metric) with >=1 finite "
    "cell avg/std/min/max = fsum mean / population std / min / max of exactly the finite cells; permutation invariant; "
    "get_one_subject returns the subject's own cells (None for non-finite); when every column has a finite cell the "
    "across-groups summary equals the same statistics over the per-group averages. Non-trivial: some column mixes "
    "finite and missing cells and there are >=2 groups; distinct = distinct canonical table."
)
ASSUMPTIONS = [
    "tolerance: |difference| <= 1e-12 * n * max|x| for averages, 1e-9 relative for standard deviations",
    "columns without any finite value are outside the property (their summary is undefined)",
    "group names without '-' here (name handling is C18's property)",
]
BUDGET = {"quick": 300, "thorough": 8000}
BOUNDS = {"groups": "1-4", "metrics": "1-5", "subjects": "1-12", "magnitude": "<= 1e100"}

METRIC_NAMES = ["tp", "fp", "sq", "sq_dsc", "pq", "global_bin_dsc", "sq_assd", "sq_rvd_std"]

cell = st.one_of(
    st.floats(min_value=-1e3, max_value=1e3, allow_nan=False, allow_infinity=False).map(repr),
    st.floats(min_value=0.0, max_value=1.0).map(repr),
    st.floats(min_value=-1e100, max_value=1e100, allow_nan=False, allow_infinity=False, allow_subnormal=True).map(repr),
    st.sampled_from(["5e-324", "2.2250738585072014e-308", "1e-300", "0.0", "-0.0", "1.0"]),
    st.integers(0, 50).map(str),
    st.sampled_from(["", "", "nan", "inf", "-inf"]),
)


@st.composite
def table(draw):
    ng, nm, ns = draw(st.integers(1, 4)), draw(st.integers(1, 5)), draw(st.integers(1, 12))
    groups = draw(gen.names(ng, alphabet="abcXYZ019_ ."))
    groups = [g.lower() for g in groups]
    metrics = draw(st.lists(st.sampled_from(METRIC_NAMES), min_size=nm, max_size=nm, unique=True))
    subjects = draw(gen.names(ns, alphabet="abcXYZ019-_ ."))
    if draw(st.integers(0, 2)) == 0:
        subjects = draw(gen.subject_name_variants(subjects, 12))
        ns = len(subjects)
    # case-sensitive uniqueness is enough for subjects, keep them as drawn
    cells = [[draw(cell) for _ in range(ng * nm)] for _ in range(ns)]
    # a permutation drawn as sort keys (st.permutations is not supported by Hypothesis' fuzz_one_input provider)
    keys = draw(st.lists(st.integers(0, 1000), min_size=ns, max_size=ns))
    perm = sorted(range(ns), key=lambda i: (keys[i], i))
    # a history of read-only queries; the object must answer the same afterwards
    queries = draw(st.lists(st.tuples(st.sampled_from(["get", "get_nonone", "across", "summary_dict", "one_subject", "across_summary"]), st.integers(0, 7), st.integers(0, 7)), min_size=0, max_size=6))
    return {"groups": groups, "metrics": list(metrics), "subjects": subjects, "cells": cells, "perm": perm, "queries": [list(q) for q in queries]}


def searches(tier):
    return [("tables", table(), BUDGET[tier])]


def write_table(path, case, order):
    header = ["subject_name"] + [f"{g}-{m}" for g in case["groups"] for m in case["metrics"]]
    with open(path, "w", encoding="utf8", newline="") as f:
        w = csv.writer(f, delimiter="\t", lineterminator="\n")
        w.writerow(header)
        for i in order:
            w.writerow([case["subjects"][i]] + case["cells"][i])


def finite_or_none(s):
    if s == "":
        return None
    v = float(s)
    return v if math.isfinite(v) else None


def check_stat(stat, case, order, tag):
    groups, metrics = case["groups"], case["metrics"]
    nm = len(metrics)
    all_cols_finite = True
    avgs = {}
    for gi, g in enumerate(groups):
        for mi, m in enumerate(metrics):
            col = [finite_or_none(case["cells"][i][gi * nm + mi]) for i in order]
            fin = [v for v in col if v is not None]
            got_col = stat.get(g, m)
            names = list(stat.subjectnames)
            if len(got_col) != len(col):
                raise Violation(f"[{tag}] column {g}-{m} holds {len(got_col)} values for {len(col)} subjects")
            for i, b in enumerate(col):
                a = got_col[names.index(case["subjects"][order[i]])]  # aligned by subject name, not by position
                if not ((a is None and b is None) or (a is not None and b is not None and a == b)):
                    raise Violation(f"[{tag}] value of subject {case['subjects'][order[i]]!r} in {g}-{m} is {a!r}, recorded cell is {case['cells'][order[i]][gi * nm + mi]!r}")
            if not fin:
                all_cols_finite = False
                continue
            s = H.lib_call(stat.get_summary, g, m)
            scale = max(abs(v) for v in fin)
            n = len(fin)
            want_avg, want_std = M.mean(fin), M.pstd(fin)
            # the across-groups relation is stated over the per-group averages as reported (verified just below)
            avgs[(g, m)] = s.avg
            if abs(s.avg - want_avg) > 1e-12 * n * scale + 5e-324:
                raise Violation(f"[{tag}] avg of {g}-{m} is {s.avg!r}, mean of the finite cells {fin} is {want_avg!r}")
            if abs(s.std - want_std) > 1e-9 * max(scale, want_std) + 5e-324:
                raise Violation(f"[{tag}] std of {g}-{m} is {s.std!r}, population std of the finite cells is {want_std!r}")
            if s.min != min(fin) or s.max != max(fin):
                raise Violation(f"[{tag}] min/max of {g}-{m} is {s.min!r}/{s.max!r}, finite cells give {min(fin)!r}/{max(fin)!r}")
    for pos, i in enumerate(order):
        one = H.lib_call(stat.get_one_subject, case["subjects"][i])
        for gi, g in enumerate(groups):
            for mi, m in enumerate(metrics):
                want = finite_or_none(case["cells"][i][gi * nm + mi])
                got = one[g][m]
                if not ((got is None and want is None) or (got is not None and want is not None and got == want)):
                    raise Violation(f"[{tag}] get_one_subject({case['subjects'][i]!r})[{g!r}][{m!r}] = {got!r}, recorded cell is {case['cells'][i][gi * nm + mi]!r}")
    if all_cols_finite:
        ac = H.lib_call(stat.get_summary_across_groups)
        for m in metrics:
            vals = [avgs[(g, m)] for g in groups]
            scale = max(abs(v) for v in vals)
            s = ac[m]
            if abs(s.avg - M.mean(vals)) > 1e-11 * len(vals) * max(scale, 5e-324) + 5e-324:
                raise Violation(f"[{tag}] across-groups avg of {m} is {s.avg!r}, mean of the per-group averages {vals} is {M.mean(vals)!r}")
            if abs(s.std - M.pstd(vals)) > 1e-9 * max(scale, 5e-324) + 5e-324:
                raise Violation(f"[{tag}] across-groups std of {m} is {s.std!r}, population std of the per-group averages is {M.pstd(vals)!r}")
            if abs(s.min - min(vals)) > 1e-12 * len(vals) * 12 * max(scale, 5e-324) or abs(s.max - max(vals)) > 1e-12 * len(vals) * 12 * max(scale, 5e-324):
                raise Violation(f"[{tag}] across-groups min/max of {m} is {s.min!r}/{s.max!r}, per-group averages give {min(vals)!r}/{max(vals)!r}")
    return all_cols_finite


def run_queries(stat, case):
    """Read-only API calls in generated order (their results are not needed; exceptions of calls that
    are undefined on all-missing columns are ignored)."""
    g, m, sj = case["groups"], case["metrics"], case["subjects"]
    for op, a, b in case["queries"]:
        try:
            with H.quiet():
                if op == "get":
                    stat.get(g[a % len(g)], m[b % len(m)])
                elif op == "get_nonone":
                    stat.get(g[a % len(g)], m[b % len(m)], remove_nones=True)
                elif op == "across":
                    stat.get_across_groups(m[b % len(m)])
                elif op == "summary_dict":
                    stat.get_summary_dict(include_across_group=bool(a % 2))
                elif op == "one_subject":
                    stat.get_one_subject(sj[a % len(sj)])
                else:
                    stat.get_summary_across_groups()
        except (ValueError, ZeroDivisionError):
            pass


def check(case, stats):
    from panoptica import Panoptica_Statistic

    if len(set(case["subjects"])) != len(case["subjects"]):
        return
    groups, metrics = case["groups"], case["metrics"]
    nm = len(metrics)
    mixed = False
    for c in range(len(groups) * nm):
        col = [finite_or_none(r[c]) for r in case["cells"]]
        if any(v is None for v in col) and any(v is not None for v in col):
            mixed = True
    kinds = set()
    for r in case["cells"]:
        for s in r:
            kinds.add("empty" if s == "" else s if s in ("nan", "inf", "-inf") else "finite")
    stats.record(case, mixed and len(groups) >= 2, [f"groups={len(groups)}"] + [f"cell:{k}" for k in sorted(kinds)])
    d = tempfile.mkdtemp(prefix="pv_c20_")
    try:
        ident = list(range(len(case["subjects"])))
        for tag, order in (("file", ident), ("permuted", case["perm"])):
            path = os.path.join(d, f"{tag}.tsv")
            write_table(path, case, order)
            stat = H.lib_call(Panoptica_Statistic.from_file, path)
            if sorted(stat.groupnames) != sorted(groups) or sorted(stat.metricnames) != sorted(metrics):
                raise Violation(f"[{tag}] loaded groups/metrics {stat.groupnames}/{stat.metricnames} != written {groups}/{metrics}")
            if sorted(stat.subjectnames) != sorted(case["subjects"]):
                raise Violation(f"[{tag}] loaded subjects {stat.subjectnames} != written")
            if check_stat(stat, case, order, tag):
                stats.count("across_groups_compared")
            if case.get("queries"):
                run_queries(stat, case)
                check_stat(stat, case, order, tag + " after " + ",".join(q[0] for q in case["queries"]))
                stats.count("rechecked_after_query_history")
        vd = {g: {m: [finite_or_none(r[gi * nm + mi]) for r in case["cells"]] for mi, m in enumerate(metrics)} for gi, g in enumerate(groups)}
        stat = H.lib_call(lambda: Panoptica_Statistic(list(case["subjects"]), vd))
        check_stat(stat, case, ident, "constructor")
    finally:
        for f in os.listdir(d):
            os.remove(os.path.join(d, f))
        os.rmdir(d)


def post_phase(tier, seed, stats):
    """Thorough tier: coverage-guided fuzzing (atheris/libFuzzer) of the same strategy and oracle through
    Hypothesis' fuzz_one_input; 8 independent campaigns, each with a fresh (empty) corpus directory."""
    if tier != "thorough":
        return None
    import json
    import subprocess
    import sys

    try:
        subprocess.run([sys.executable, "-c", "import atheris"], check=True, capture_output=True)
    except Exception:
        stats.count("fuzz:atheris_unavailable")
        return None
    base = tempfile.mkdtemp(prefix="pv_c20fuzz_")
    procs = []
    try:
        for i in range(8):
            d = os.path.join(base, f"c{i}")
            os.makedirs(os.path.join(d, "corpus"))
            cmd = [sys.executable, "-W", "ignore", "-m", "pv.fuzz_stats", os.path.join(d, "replay.json"), os.path.join(d, "stats.json"),
                   "-runs=6000", f"-seed={seed * 64 + i + 1}", "-len_control=0", "-max_len=8192", f"-artifact_prefix={d}/", os.path.join(d, "corpus")]
            procs.append((d, subprocess.Popen(cmd, cwd=H.VERIF, stdout=subprocess.DEVNULL, stderr=subprocess.DEVNULL)))
        viol = None
        for d, p in procs:
            try:
                p.wait(timeout=3600)
            except subprocess.TimeoutExpired:
                p.kill()
                stats.count("fuzz:campaign_timeout_inconclusive")
            if os.path.exists(os.path.join(d, "stats.json")):
                st_ = json.load(open(os.path.join(d, "stats.json")))
                stats.count("fuzz:executions_reaching_the_oracle", st_["evaluations"])
                stats.count("fuzz:distinct_nontrivial", st_["nontrivial"])
                stats.count("fuzz:corpus_entries", len(os.listdir(os.path.join(d, "corpus"))))
                stats.evaluations += st_["evaluations"]
            if os.path.exists(os.path.join(d, "replay.json")) and viol is None:
                r = json.load(open(os.path.join(d, "replay.json")))
                viol = (r["case"], "[found by coverage-guided fuzzing] " + r["message"], None)
        stats.count("fuzz:campaigns", len(procs))
        return viol
    finally:
        shutil.rmtree(base, ignore_errors=True)
