"""C03 - the threshold matcher is a sound, conflict-free, maximal best-first assignment."""
from __future__ import annotations

import itertools

import numpy as np
from hypothesis import strategies as st

from .. import gen, harness as H, lib, refmodel as M
from ..harness import Violation

LEVEL = "exploration"
RULE = (
    "Unmatched instance-map pairs (both sides non-empty; 1-3-D; derived predictions: shifts, grow/shrink, splits into "
    "fragments, merges, spurious/deleted instances, also with roles exchanged so that one prediction spans several "
    "references; 1-D maps given as runs in which large instances are touched by tiny ones) x metric in {IoU, Dice, ASSD} x threshold (fixed grid, floats, or exactly the score of one of the "
    "case's candidate pairs) x allow_many_to_one x a second threshold for the monotonicity relation x fresh or reused objects (the pair object was matched before by a matcher with another metric, the matcher object has matched another pair of the same shape). Exhaustive: all 1-D "
    "pairs up to length 4 (quick) / 5 (thorough) over labels {0,1,2}. Oracle = validity predicates (function, "
    "injectivity, overlap, threshold, maximality, no displacement, monotonicity) + membership in the set of greedy "
    "outcomes of the reference model under every order of tied pairs (equality when that set is a singleton). "
    "Non-trivial: >=2 eligible candidates share a partner, or a candidate score equals the threshold, or many-to-one "
    "with a prediction eligible for 2 references; distinct = distinct canonical case."
)
ASSUMPTIONS = [
    "Pool replaced by a serial order-preserving stand-in (justified by C15)",
    "both sides non-empty (the pipeline never calls a matcher otherwise)",
    "ASSD scores closer than 1e-9 are treated as tied",
]
BUDGET = {"quick": 350, "thorough": 6000}
BOUNDS = {"sides": "1-D<=16, 2-D<=8, 3-D<=5", "instances": "<= ~8 per side"}


@st.composite
def case_strategy(draw):
    pred, ref = draw(gen.pair(k=4, derived_weight=4))
    if draw(st.integers(0, 5)) == 0:
        # a single slice stored as a volume: thick 2-D instances with a singleton axis somewhere
        pred, ref = draw(gen.pair(ndims=(2,), k=3, derived_weight=4))
        ax = draw(st.integers(0, 2))
        pred, ref = np.expand_dims(pred, ax), np.expand_dims(ref, ax)
    metric = draw(st.sampled_from(["IOU", "IOU", "DSC", "ASSD"]))
    return {
        "pred": gen.compact(pred).tolist(),
        "ref": gen.compact(ref).tolist(),
        "dtype": draw(st.sampled_from(["uint8", "uint16", "uint32", "uint64"])),
        "layout": draw(st.sampled_from(["C", "C", "C", "F", "neg", "T"])),
        "metric": metric,
        "thr": draw(gen.threshold(metric)),
        "thr2": draw(gen.threshold(metric)),
        "m2o": draw(st.sampled_from([False, True, None])),  # None: the constructor's default (one-to-one)
        # the pair object has been matched before by a matcher with this metric (None: fresh pair object)
        "reuse": draw(st.sampled_from([None, None, "IOU", "DSC", "ASSD"])),
    }


def prepare(tier):
    lib.install_assd_snap()


@st.composite
def runs_case(draw):
    """1-D maps given as runs: large instances touched by tiny ones (overlap ratios far below 1/16),
    long-range ASSD candidates."""
    runs = []
    for _ in range(draw(st.integers(2, 8))):
        runs.append([draw(st.sampled_from([0, 1, 2, 3])), draw(st.sampled_from([0, 1, 2, 3])), draw(st.sampled_from([1, 1, 2, 3, 17, 40, 100]))])
    pred = np.concatenate([np.full(n, a, dtype=np.int64) for a, b, n in runs])
    ref = np.concatenate([np.full(n, b, dtype=np.int64) for a, b, n in runs])
    metric = draw(st.sampled_from(["IOU", "DSC", "ASSD"]))
    thr = draw(st.one_of(gen.threshold(metric), st.sampled_from([0.01, 0.02, 0.05]).map(lambda v: {"v": v})))
    return {"pred": pred.tolist(), "ref": ref.tolist(), "dtype": "uint8", "metric": metric, "thr": thr, "thr2": draw(gen.threshold(metric)), "m2o": draw(st.booleans())}


@st.composite
def large_near_tie_case(draw):
    """One reference instance of 10^5 voxels and two candidates whose IoU differs in the fifth decimal (0.4 against
    39999/100001): scores that any rounding to a few decimals makes equal. Given as runs."""
    lp = draw(st.permutations([1, 2]))
    gap = draw(st.integers(1, 5))
    # runs: [pred label, ref label, length]
    runs = [[lp[0], 1, 40000], [0, 1, 20001], [lp[1], 1, 39999], [lp[1], 0, 1], [0, 0, gap]]
    if draw(st.booleans()):
        runs = runs[::-1]
    return {"runs": runs, "dtype": "uint8", "metric": draw(st.sampled_from(["IOU", "DSC"])), "thr": {"v": draw(st.sampled_from([0.0, 0.3]))}, "thr2": {"v": 0.35},
            "m2o": draw(st.sampled_from([False, None])), "reuse": None}


def searches(tier):
    n = BUDGET[tier]
    return [("pairs", case_strategy(), n), ("runs_1d", runs_case(), n // 3), ("large_near_tie", large_near_tie_case(), 2 if tier == "quick" else 8)]


def enumerations(tier):
    def g():
        Ls = range(1, 5) if tier == "quick" else range(1, 6)
        for L in Ls:
            maps = [np.array(v) for v in itertools.product((0, 1, 2), repeat=L) if any(v)]
            for r in maps:
                for p in maps:
                    for thr in (0.5, 1.0 / 3.0):
                        for m2o in (False, True):
                            yield {"pred": p.tolist(), "ref": r.tolist(), "dtype": "uint8", "metric": "IOU", "thr": {"v": thr}, "thr2": {"v": 1.0}, "m2o": m2o, "enum": True}
    return [("1d_pairs_over_012", g())]


def run_matcher(pred, ref, metric, thr, m2o, reuse=None):
    from panoptica.utils.processing_pair import UnmatchedInstancePair

    mt = lib.matcher({"kind": "naive", "metric": metric, "thr": thr, "m2o": m2o})
    pc, rc = pred.copy(), ref.copy()
    pair = H.lib_call(lambda: UnmatchedInstancePair(pred, ref))
    if reuse:
        other = lib.matcher({"kind": "naive", "metric": reuse, "thr": 0.5, "m2o": not m2o})
        H.lib_call(lambda: other.match_instances(pair))
        # ... and the matcher object has matched another pair of the same shape before
        H.lib_call(lambda: mt.match_instances(UnmatchedInstancePair(ref[::-1].copy(), pred[::-1].copy())))
    out = H.lib_call(lambda: mt.match_instances(pair))
    if not (np.array_equal(pred, pc) and np.array_equal(ref, rc)):
        raise Violation("matcher modified its input arrays")
    return out


def read_assignment(out, pred, ref, ref_labels):
    """input prediction label -> output label; assignment = pairs (r, p) with output label a reference label."""
    op = np.asarray(out.prediction_arr)
    pin = M.instances(pred)
    amap = {}
    for p, vox in pin.items():
        labs = {int(op[c]) for c in vox}
        if len(labs) != 1:
            raise Violation(f"prediction instance {p} carries several output labels {sorted(labs)}")
        amap[p] = labs.pop()
    return frozenset((o, p) for p, o in amap.items() if o in ref_labels), amap


def check(case, stats):
    if "runs" in case:
        case = {**case, "pred": np.concatenate([np.full(n, a) for a, b, n in case["runs"]]).tolist(), "ref": np.concatenate([np.full(n, b) for a, b, n in case["runs"]]).tolist()}
    pred = gen.with_layout(np.array(case["pred"]).astype(case["dtype"]), case.get("layout", "C"))
    ref = gen.with_layout(np.array(case["ref"]).astype(case["dtype"]), case.get("layout", "C"))
    if not pred.any() or not ref.any():
        stats.count("skipped:empty_side")
        return
    metric, m2o = case["metric"], case["m2o"]
    pin, rin = M.instances(pred), M.instances(ref)
    cands = M.candidates(pin, rin, metric, ref.shape)
    scores = [s for s, _, _ in cands]
    thr = gen.resolve_threshold(case["thr"], scores)
    thr2 = gen.resolve_threshold(case["thr2"], scores)
    score = {(r, p): s for s, r, p in cands}
    elig = {(r, p) for s, r, p in cands if M.beats(metric, s, thr)}
    eps = M.tie_eps(metric)

    exact = any(s == thr for s in scores)
    share = any((a[0] == b[0] or a[1] == b[1]) for a, b in itertools.combinations(sorted(elig), 2))
    multi_ref = any(sum(1 for (r, p2) in elig if p2 == p) >= 2 for p in pin)
    nontrivial = share or exact or (m2o and multi_ref)
    classes = [f"metric={metric}", f"m2o={m2o}", f"ndim={ref.ndim}"]
    if exact:
        classes.append("exact_threshold")
    if share:
        classes.append("competing_eligible")
    if multi_ref:
        classes.append("pred_eligible_for_2_refs")
    tied = M.competing_ties(cands, metric)
    if tied:
        classes.append("tied_competitors")
    stats.record(case, nontrivial, classes)

    out = run_matcher(pred, ref, metric, thr, m2o, case.get("reuse"))
    if case.get("reuse"):
        stats.count("pair_object_matched_before")
    if not np.array_equal(np.asarray(out.reference_arr), ref):
        raise Violation("matching changed the reference map")
    assign, amap = read_assignment(out, pred, ref, set(rin))
    by_p = {p: r for r, p in assign}
    by_r = {}
    for r, p in assign:
        by_r.setdefault(r, []).append(p)
    # (ii) conflict-free
    if not m2o:
        for r, ps in by_r.items():
            if len(ps) > 1:
                raise Violation(f"one-to-one matching assigned predictions {sorted(ps)} to reference {r}")
    # (iii) soundness
    for r, p in assign:
        if (r, p) not in score:
            raise Violation(f"assigned pair (ref {r}, pred {p}) does not overlap")
        if not M.beats(metric, score[(r, p)], thr):
            if eps and abs(score[(r, p)] - thr) <= eps:
                continue
            raise Violation(f"assigned pair (ref {r}, pred {p}) has {metric} {score[(r, p)]!r} which does not meet threshold {thr!r}")
    # (iv)/(v) maximality and no displacement
    def asgood(a, b):  # a at least as good as b
        return (not M.better(metric, b, a)) or abs(a - b) <= eps

    for (r, p) in sorted(elig):
        if (r, p) in assign:
            continue
        if eps and abs(score[(r, p)] - thr) <= eps:
            continue
        ok = False
        if p in by_p and asgood(score[(by_p[p], p)], score[(r, p)]):
            ok = True
        if not m2o and r in by_r and any(asgood(score[(r, q)], score[(r, p)]) for q in by_r[r]):
            ok = True
        if not ok:
            if p not in by_p and r not in by_r:
                raise Violation(f"pair (ref {r}, pred {p}) meets the threshold ({score[(r, p)]!r} vs {thr!r}) but both partners are left unassigned")
            if p in by_p or not m2o:
                raise Violation(f"better-scoring pair (ref {r}, pred {p}, {score[(r, p)]!r}) displaced by a worse-scoring assignment {sorted(assign)}")
            # many-to-one, p unassigned, r taken by another prediction: decided by the outcome-set oracle below
    # (vii) agreement with the model's outcome set
    outs, complete = M.naive_outcomes(cands, metric, thr, m2o)
    near_thr = eps and any(abs(s - thr) <= eps and s != thr for s in scores)
    if complete and not near_thr and assign not in outs:
        raise Violation(f"assignment {sorted(assign)} is not a best-first greedy outcome; model outcomes: {[sorted(o) for o in outs][:4]}")
    if len(outs) == 1 and complete:
        stats.count("uniquely_determined")
    # (vi) monotonicity in the threshold
    if not case.get("enum") or True:
        lo, hi = (thr, thr2) if M.beats(metric, thr2, thr) else (thr2, thr)  # hi = stricter
        if lo != hi:
            a_lo, _ = read_assignment(run_matcher(pred, ref, metric, lo, m2o), pred, ref, set(rin))
            a_hi, _ = read_assignment(run_matcher(pred, ref, metric, hi, m2o), pred, ref, set(rin))
            if not a_hi <= a_lo:
                raise Violation(f"stricter threshold {hi!r} matches {sorted(a_hi - a_lo)} which the looser threshold {lo!r} does not")
            stats.count("monotonicity_compared")
