"""C19 - saving and loading a configuration reproduces the same evaluator."""
from __future__ import annotations

import contextlib
import glob
import os
import re
import shutil
import tempfile

import numpy as np
from hypothesis import strategies as st

from .. import gen, harness as H, lib, meta, refmodel as M
from ..harness import Violation
from .c08 import RES, handler_cfg
from .c12 import _map_to_labels

LEVEL = "exploration"
RULE = (
    "Evaluator configurations from the full product by construction, every field away from its default with probability "
    "1/2: input type; approximator backend {None,cc3d,scipy}; threshold matcher (metric, threshold, many-to-one) / merge "
    "matcher / none; edge-case handler (per metric 4 scenarios x 5 results; 5 empty-list values); class groups (plain / "
    "merge / single-instance, generated names) or none; instance/global metric lists; decision metric + threshold "
    "(thresholds from an off-grid set incl. 1/3, 1e-5, 0.1+0.2); the three boolean flags. Each component also saved on "
    "its own (matchers, approximator, handler, per-metric handling, label groups, class groups, every enum member), and "
    "every YAML shipped under panoptica/configs. Evaluators are saved by path under sibling file names that differ in little (cfg.v1/cfg.v2, conf/conf.yaml, x.yml/x.yaml ...) with a different configuration saved next to them, or by name (name resolution pointed at a scratch directory) after a decoy was saved and loaded under the same name; half of them have evaluated a volume and an image before being saved. Oracle: (a) save -> load -> save reproduces the file text; (b) the loaded "
    "object behaves identically on a probe battery built so that each option changes the outcome (2-D and 3-D diagonal "
    "contact, 20 prefix masks with IoU k/20, fragment pair, the four zero-TP scenarios, multi-label maps, two random "
    "pairs): equal results for every group incl. key sets and per-TP lists, equal exception behaviour, equal group "
    "names and resulting_metric_keys, equal captured stdout with digits masked, equal computation_time presence; "
    "components are compared through their public behaviour. Non-trivial: >=3 fields differ from their defaults; "
    "distinct = distinct canonical case."
)
ASSUMPTIONS = [
    "Pool replaced by a serial order-preserving stand-in (justified by C15)",
    "behavioural equality is judged on the probe battery only (evidence lists it)",
]
BUDGET = {"quick": 45, "thorough": 1200}
BOUNDS = {"probes": "~32 per evaluator case"}
THRS = [0.0, 0.5, 1.0, 1.0 / 3.0, 0.1 + 0.2, 1e-5, 0.5000001, 0.1234567, 0.6543211, 0.8765433, 0.2718282, 0.9999999, 0.0312501, 0.4142136, 0.75]
ATHRS = [0.0, 0.3, 0.75, 1.0 / 3.0, 1.25, 2.5, 1e-5, 7.0]


def thr_for(metric):
    return st.sampled_from(ATHRS if metric == "ASSD" else THRS)


@st.composite
def matcher_cfg(draw, allow_none=False):
    kind = draw(st.sampled_from(["naive", "naive_m2o", "merge"] + (["none"] if allow_none else [])))
    if kind == "none":
        return None
    mm = draw(st.sampled_from(["IOU", "DSC", "ASSD"]))
    return {"kind": "merge" if kind == "merge" else "naive", "metric": mm, "thr": draw(thr_for(mm)), "m2o": kind == "naive_m2o"}


@st.composite
def evaluator_case(draw):
    nondefault = 0
    def maybe(s, default):
        nonlocal nondefault
        if draw(st.booleans()):
            nondefault += 1
            return draw(s)
        return default
    it = maybe(st.sampled_from(["SEMANTIC", "UNMATCHED_INSTANCE"]), "MATCHED_INSTANCE")
    groups = maybe(gen.group_defs(name_alphabet="abcXYZ019-_ .:"), None)
    imets = maybe(st.lists(st.sampled_from(["DSC", "IOU", "ASSD", "RVD"]), min_size=0, max_size=4, unique=True), None)
    gmets = maybe(st.lists(st.sampled_from(["DSC", "IOU", "ASSD", "RVD"]), min_size=0, max_size=3, unique=True), None)
    eff_i = imets if imets is not None else ["DSC", "IOU", "ASSD", "RVD"]
    eff_g = gmets if gmets is not None else ["DSC"]
    dec = None
    if draw(st.booleans()):
        dm = draw(st.sampled_from([m for m in eff_i if m != "RVD"] or ["none"]))
        if dm != "none":
            nondefault += 1
            dec = [dm, draw(thr_for(dm))]
    handler = maybe(handler_cfg(sorted(set(eff_i) | set(eff_g) | {"DSC"})), None)
    flags = {}
    for f in ("save_group_times", "log_times", "verbose"):
        if draw(st.booleans()):
            flags[f] = True
            nondefault += 1
    rnd = [draw(gen.pair(ndims=(2,), k=3, derived_weight=3)) for _ in range(2)]
    return {
        "kind": "evaluator", "input": it,
        "backend": draw(st.sampled_from([None, "cc3d", "scipy"])) if it == "SEMANTIC" else None,
        "matcher": None if it == "MATCHED_INSTANCE" else draw(matcher_cfg()),
        "decision": dec, "imetrics": imets, "gmetrics": gmets, "handler": handler, "groups": groups, "flags": flags,
        "nondefault": nondefault + (1 if it == "SEMANTIC" else 0),
        "random_probes": [[p.tolist(), r.tolist()] for p, r in rnd],
        # where the two files of the round trip go (sibling names that differ in little), whether they are addressed by
        # path or by name, and whether the evaluator has been used (on a 3-D and a 2-D input) before it is saved
        "files": draw(st.sampled_from(FILE_NAMES)), "via": draw(st.sampled_from(["path", "path", "name"])), "used_first": draw(st.booleans()),
    }


@st.composite
def component_case(draw):
    what = draw(st.sampled_from(["matcher", "approximator", "handler", "zerotp", "labelgroup", "classgroups", "enum"]))
    c = {"kind": "component", "what": what}
    if what == "matcher":
        c["matcher"] = draw(matcher_cfg())
    elif what == "approximator":
        c["backend"] = draw(st.sampled_from([None, "cc3d", "scipy"]))
    elif what == "handler":
        c["handler"] = draw(handler_cfg(draw(st.lists(st.sampled_from(["DSC", "IOU", "ASSD", "RVD", "clDSC"]), min_size=1, max_size=5, unique=True))))
    elif what == "zerotp":
        c["vals"] = [draw(st.sampled_from(RES)) for _ in range(4)]
        if draw(st.booleans()):  # built from default_result plus some explicit scenarios
            default, explicit = draw(st.sampled_from(RES)), [draw(st.booleans()) for _ in range(4)]
            c["vals"] = [v if e else default for v, e in zip(c["vals"], explicit)]
            c["via_default"] = [default, explicit]
    elif what == "labelgroup":
        c["group"] = draw(gen.group_defs(max_groups=1))[0]
    elif what == "classgroups":
        c["groups"] = draw(gen.group_defs(name_alphabet="abcXYZ019-_ .:"))
        if draw(st.integers(0, 3)) == 0:
            # given as a plain list: the names are generated (group_0 ... group_11), one label per group
            n = draw(st.integers(1, 12))
            kinds = [draw(st.sampled_from(["plain", "merge", "single"])) for _ in range(n)]
            c["groups"] = [{"name": f"group_{i}", "labels": [i + 1], "kind": k} for i, k in enumerate(kinds)]
            c["as_list"] = True
    else:
        c["enum"] = draw(st.sampled_from(["Metric", "InputType", "CCABackend", "EdgeCaseResult", "EdgeCaseZeroTP", "MetricMode", "MetricType"]))
        c["index"] = draw(st.integers(0, 5))
    return c


def searches(tier):
    n = BUDGET[tier]
    return [("evaluator", evaluator_case(), n), ("component", component_case(), n)]


def enumerations(tier):
    def g():
        for path in sorted(glob.glob(os.path.join(H.REPO, "panoptica", "configs", "*.yaml"))):
            yield {"kind": "shipped", "name": os.path.basename(path)}
    return [("shipped_configs", g())]


# ----------------------------------------------------------------------------- probes
def probes_for(case, defined):
    """List of (tag, pred, ref) int64 arrays using only defined labels."""
    L = (defined or [1, 2, 3])
    a, b = L[0], L[1 % len(L)]
    out = []
    d2r = np.array([[a, 0, 0], [0, a, 0], [0, 0, 0]])
    out.append(("diag2d", d2r, d2r))
    d3 = np.zeros((3, 3, 3), dtype=np.int64)
    d3[0, 0, 0] = a
    d3[1, 1, 1] = a
    out.append(("diag3d", d3, d3))
    ref = np.zeros(22, dtype=np.int64)
    ref[:20] = a
    for k in range(1, 21):
        p = np.zeros(22, dtype=np.int64)
        p[:k] = a
        out.append((f"prefix{k}", p, ref))
    fr = np.array([a] * 6 + [0, 0])
    fp = np.array([1] * 4 + [2] * 2 + [0, 0])
    fp_sem = np.array([a] * 4 + [0] + [a] * 1 + [0, 0])
    out.append(("fragments", fp if not defined and case["input"] != "SEMANTIC" else fp_sem, fr))
    z = np.zeros(5, dtype=np.int64)
    one = np.array([a, a, 0, 0, 0])
    two = np.array([0, 0, 0, b, b])
    out += [("none", z, z), ("empty_pred", z, one), ("empty_ref", one, z), ("disjoint", two if case["input"] != "MATCHED_INSTANCE" or a != b else np.array([0, 0, 0, a, a]), one)]
    ml = np.array([[L[i % len(L)] for i in range(4)], [0, L[0], L[-1], 0], [L[-1]] * 4])
    out.append(("multilabel", ml, np.roll(ml, 1, axis=1)))
    # probes that straddle the configured thresholds tightly (a threshold that loses precision in the file shows here)
    for tag, metric, t in adaptive_thresholds(case):
        for u in (1999, 2000, 1997):
            for i in straddle(metric, t, u):
                r_ = np.zeros(u + 2, dtype=np.int64)
                r_[:u] = a
                p_ = np.zeros(u + 2, dtype=np.int64)
                p_[:i] = a
                out.append((f"{tag}:{metric}:{i}/{u}", p_, r_))
    for i, (p, r) in enumerate(case.get("random_probes", [])):
        out.append((f"random{i}", _map_to_labels(np.array(p), L), _map_to_labels(np.array(r), L)))
    return out


def adaptive_thresholds(case):
    out = []
    m = case.get("matcher")
    if m and m["metric"] in ("IOU", "DSC"):
        out.append(("mthr", m["metric"], m["thr"]))
    d = case.get("decision")
    if d and d[0] in ("IOU", "DSC"):
        out.append(("dthr", d[0], d[1]))
    return out


def straddle(metric, t, u):
    """Prefix lengths i (of a reference of u voxels) whose score is the smallest >= t and the largest < t."""
    score = (lambda i: i / u) if metric == "IOU" else (lambda i: 2 * i / (u + i))
    lo, hi = 1, u
    if score(u) < t:
        return [u]
    while lo < hi:
        mid = (lo + hi) // 2
        if score(mid) >= t:
            hi = mid
        else:
            lo = mid + 1
    return [i for i in (lo - 1, lo) if 1 <= i <= u]


MASK = re.compile(r"\d+(\.\d+)?(e-?\d+)?")


def behave(ev, case, probes):
    """Observable behaviour of an evaluator on the probe battery."""
    out = []
    for tag, p, r in probes:
        dt = "uint8"
        try:
            with H.quiet() as buf:
                res = ev.evaluate(p.astype(dt), r.astype(dt))
            # group order is not preserved by the YAML mapping, so the printed lines are compared as a multiset
            entry = {"stdout": sorted(MASK.sub("#", buf.getvalue()).splitlines())}
            for g, (rs, _) in res.items():
                ob = meta.observe(rs)
                entry[g] = ob
                entry[g + ":time"] = rs.computation_time is None
        except Exception as e:
            entry = {"raised": type(e).__name__}
        out.append((tag, entry))
    return out


def same_behaviour(b1, b2):
    for (t1, e1), (t2, e2) in zip(b1, b2):
        if set(e1) != set(e2):
            return f"probe {t1}: outcomes differ ({sorted(e1)} vs {sorted(e2)}; {e1.get('raised')} / {e2.get('raised')})"
        for k in e1:
            if k in ("raised", "stdout") or k.endswith(":time"):
                if e1[k] != e2[k]:
                    return f"probe {t1}: {k} differs: {e1[k]!r} vs {e2[k]!r}"
            else:
                if sorted(e1[k]["dict"]) != sorted(e2[k]["dict"]):
                    return f"probe {t1} group {k!r}: reported metric keys differ: {sorted(set(e1[k]['dict']) ^ set(e2[k]['dict']))}"
                if sorted(e1[k]["lists"]) != sorted(e2[k]["lists"]):
                    return f"probe {t1} group {k!r}: list metrics differ: {sorted(e1[k]['lists'])} vs {sorted(e2[k]['lists'])}"
                msg = meta.diff(e1[k], e2[k])
                if msg:
                    return f"probe {t1} group {k!r}: {msg}"
    return None


FILE_NAMES = [["ev_1.yaml", "ev_2.yaml"], ["cfg.v1", "cfg.v2"], ["eval_iou0.3", "eval_iou0.7"], ["conf", "conf.yaml"], ["a.b.yaml", "a.c.yaml"], ["x.yml", "x.yaml"], ["run1", "run2"]]


@contextlib.contextmanager
def named_configs_in(d):
    """save_to_config_by_name / load_from_config_name resolve names relative to the installed package, which they
    locate through the module file of panoptica.utils.filepath. For the round trip by name that module's __file__ is
    pointed into the scratch directory, so the library's own name handling runs unchanged and the package directory is
    never written."""
    import panoptica.utils.filepath as FP

    saved = FP.__file__
    os.makedirs(os.path.join(d, "pkg", "utils"), exist_ok=True)
    FP.__file__ = os.path.join(d, "pkg", "utils", "filepath.py")
    try:
        yield os.path.join(d, "pkg")
    finally:
        FP.__file__ = saved


def roundtrip(obj, cls, d, name, files=None, decoy=None, via="path"):
    if via == "name":
        # by name: a decoy is saved and loaded under the name first, then the object itself; afterwards the decoy goes
        # under the sibling name
        n1, n2 = (list(files) + [None])[:2] if files else (name, None)
        fix = lambda n: n if n.endswith(".yaml") else n + ".yaml"  # noqa: E731  (the documented completion of a name)
        with named_configs_in(d) as pkg:
            if decoy is not None:
                H.lib_call(decoy.save_to_config_by_name, n1)
                H.lib_call(cls.load_from_config_name, n1)
            H.lib_call(obj.save_to_config_by_name, n1)
            if decoy is not None and n2 and fix(n2) != fix(n1):
                H.lib_call(decoy.save_to_config_by_name, n2)
            loaded = H.lib_call(cls.load_from_config_name, n1)
            if type(loaded) is not type(obj):
                raise Violation(f"loaded object has type {type(loaded).__name__}, saved a {type(obj).__name__}")
            found = [os.path.join(r, f) for r, _, fs in os.walk(pkg) for f in fs if f == fix(n1)]
            if len(found) != 1:
                raise Violation(f"save_to_config_by_name({n1!r}) did not write {fix(n1)!r} (files: {sorted(f for _, _, fs in os.walk(pkg) for f in fs)})")
            t1 = open(found[0]).read()
            H.lib_call(loaded.save_to_config_by_name, n1)
            t2 = open(found[0]).read()
        if t1 != t2:
            raise Violation(f"save(load(save(x))) by name differs from save(x):\n{t1}\n---\n{t2}")
        return loaded, t1
    f1, f2 = files or (name + "_1.yaml", name + "_2.yaml")
    p1, p2 = os.path.join(d, f1), os.path.join(d, f2)
    H.lib_call(obj.save_to_config, p1)
    if decoy is not None:
        H.lib_call(decoy.save_to_config, p2)  # another configuration next to it
    if not os.path.isfile(p1):
        raise Violation(f"save_to_config({f1!r}) did not write that file (directory holds {sorted(os.listdir(d))})")
    loaded = H.lib_call(cls.load_from_config, p1)
    if type(loaded) is not type(obj):
        raise Violation(f"loaded object has type {type(loaded).__name__}, saved a {type(obj).__name__}")
    H.lib_call(loaded.save_to_config, p2)
    t1, t2 = open(p1).read(), open(p2).read()
    if t1 != t2:
        raise Violation(f"save(load(save(x))) differs from save(x):\n{t1}\n---\n{t2}")
    return loaded, t1


def check(case, stats):
    d = tempfile.mkdtemp(prefix="pv_c19_")
    try:
        if case["kind"] == "evaluator":
            check_evaluator(case, stats, d)
        elif case["kind"] == "component":
            check_component(case, stats, d)
        else:
            check_shipped(case, stats, d)
    finally:
        shutil.rmtree(d, ignore_errors=True)


def compare_evaluators(ev, loaded, case, defined, what):
    with H.quiet():
        n1, n2 = ev.segmentation_class_groups_names, loaded.segmentation_class_groups_names
        k1, k2 = list(ev.resulting_metric_keys), list(loaded.resulting_metric_keys)
    if sorted(n1) != sorted(n2):  # results are a dict keyed by group: order is not part of the property
        raise Violation(f"{what}: group names differ after load: {n1} vs {n2}")
    if k1 != k2:
        raise Violation(f"{what}: resulting_metric_keys differ after load: {sorted(set(k1) ^ set(k2))}")
    probes = probes_for(case, defined)
    msg = same_behaviour(behave(ev, case, probes), behave(loaded, case, probes))
    if msg:
        raise Violation(f"{what}: loaded evaluator behaves differently: {msg}")


def check_evaluator(case, stats, d):
    from panoptica import Panoptica_Evaluator

    cfg = {k: case[k] for k in ("input", "backend", "matcher", "decision", "imetrics", "gmetrics", "handler", "groups", "flags")}
    ev = lib.evaluator(cfg)
    defined = sorted(l for g in case["groups"] for l in g["labels"]) if case["groups"] else None
    stats.record(case, case["nondefault"] >= 3, [f"input={case['input']}", f"nondefault={min(case['nondefault'], 8)}",
                                                 "groups" if case["groups"] else "nogroups", "handler" if case["handler"] else "default_handler",
                                                 f"matcher={'none' if not case['matcher'] else case['matcher']['kind'] + ('+m2o' if case['matcher'].get('m2o') else '')}"])
    decoy_cfg = {**cfg, "decision": None if cfg["decision"] else ["IOU", 0.9], "gmetrics": [] if cfg["gmetrics"] else ["DSC", "IOU"],
                 "matcher": {**cfg["matcher"], "thr": 0.0 if cfg["matcher"]["thr"] else 0.9} if cfg.get("matcher") else None}
    if case.get("used_first"):
        # the object that gets saved is not fresh: it has evaluated a volume and an image before
        a = defined[0] if defined else 1
        for shp in ((2, 3, 3), (3, 3)):
            probe = np.zeros(shp, dtype=np.uint8)
            probe[..., 0, 0] = a
            probe[..., 1, 1] = a
            H.lib_call(ev.evaluate, probe, probe.copy())
    loaded, _ = roundtrip(ev, Panoptica_Evaluator, d, "ev", files=case.get("files"), decoy=lib.evaluator(decoy_cfg), via=case.get("via", "path"))
    compare_evaluators(ev, loaded, case, defined, "evaluator")
    stats.count(f"roundtrip_via_{case.get('via', 'path')}")


def check_shipped(case, stats, d):
    from panoptica import Panoptica_Evaluator
    from panoptica.utils.segmentation_class import SegmentationClassGroups

    name = case["name"][:-5]
    cls = SegmentationClassGroups if name.startswith("SegmentationClassGroups") else Panoptica_Evaluator
    obj = H.lib_call(cls.load_from_config_name, name)
    stats.record(case, True, ["shipped"])
    loaded, _ = roundtrip(obj, cls, d, "shipped")
    if cls is Panoptica_Evaluator:
        with H.quiet():
            it = obj._Panoptica_Evaluator__expected_input.name
        names = obj.segmentation_class_groups_names
        defined = None
        if names != ["ungrouped"]:
            with H.quiet():
                defined = sorted(obj._Panoptica_Evaluator__segmentation_class_groups.labels)
        compare_evaluators(obj, loaded, {"input": it, "random_probes": []}, defined, f"shipped config {name}")
    else:
        compare_groups(obj, loaded)


def compare_groups(a, b):
    if sorted(a.keys()) != sorted(b.keys()):
        raise Violation(f"class group names differ after load: {a.keys()} vs {b.keys()}")
    probe = np.arange(0, 12).reshape(3, 4) % 8
    for k in a.keys():
        ga, gb = a[k], b[k]
        if type(ga) is not type(gb) or sorted(ga.value_labels) != sorted(gb.value_labels) or ga.single_instance != gb.single_instance:
            raise Violation(f"group {k!r} differs after load: {ga} vs {gb}")
        if not np.array_equal(ga(probe), gb(probe)):
            raise Violation(f"group {k!r} extracts different voxels after load")
    if sorted(a.labels) != sorted(b.labels):
        raise Violation("defined labels differ after load")


def check_component(case, stats, d):
    from panoptica import ConnectedComponentsInstanceApproximator, SemanticPair
    from panoptica.instance_matcher import MaximizeMergeMatching, NaiveThresholdMatching
    from panoptica.utils.edge_case_handling import EdgeCaseHandler, MetricZeroTPEdgeCaseHandling
    from panoptica.utils.label_group import LabelGroup, LabelMergeGroup
    from panoptica.utils.processing_pair import UnmatchedInstancePair
    from panoptica.utils.segmentation_class import SegmentationClassGroups

    what = case["what"]
    stats.record(case, True, [f"component={what}"])
    if what == "matcher":
        obj = lib.matcher(case["matcher"])
        loaded, _ = roundtrip(obj, type(obj), d, "m")
        ref = np.zeros(22, dtype=np.uint8)
        ref[:20] = 1
        extra = []
        mc = case["matcher"]
        if mc["metric"] in ("IOU", "DSC"):
            extra = [(i, u) for u in (1999, 2000, 1997) for i in straddle(mc["metric"], mc["thr"], u)]
        for k in list(range(1, 21)) + ["frag"] + extra:
            p = np.zeros(22, dtype=np.uint8)
            if k == "frag":
                p[:12] = 1
                p[12:20] = 2
            elif isinstance(k, tuple):
                ref = np.zeros(k[1] + 2, dtype=np.uint8)
                ref[:k[1]] = 1
                p = np.zeros(k[1] + 2, dtype=np.uint8)
                p[:k[0]] = 1
            else:
                p[:k] = 1
            o1 = H.lib_call(lambda: obj.match_instances(UnmatchedInstancePair(p.copy(), ref.copy())))
            o2 = H.lib_call(lambda: loaded.match_instances(UnmatchedInstancePair(p.copy(), ref.copy())))
            if not np.array_equal(o1.prediction_arr, o2.prediction_arr):
                raise Violation(f"loaded matcher {case['matcher']} matches differently on probe {k}: output labels {sorted(set(o1.prediction_arr.tolist()))} vs {sorted(set(o2.prediction_arr.tolist()))}")
    elif what == "approximator":
        obj = lib.approximator(case["backend"])
        loaded, _ = roundtrip(obj, ConnectedComponentsInstanceApproximator, d, "a")
        for arr in (np.array([[1, 0, 0], [0, 1, 0], [0, 0, 2]], dtype=np.uint8), np.eye(3, dtype=np.uint8)[None].repeat(2, 0) * np.array([1, 0])[:, None, None] + np.eye(3, dtype=np.uint8)[None].repeat(2, 0)[:, ::-1] * np.array([0, 1])[:, None, None]):
            o1 = H.lib_call(lambda: obj.approximate_instances(SemanticPair(arr.copy(), arr.copy())))
            o2 = H.lib_call(lambda: loaded.approximate_instances(SemanticPair(arr.copy(), arr.copy())))
            if not np.array_equal(o1.prediction_arr, o2.prediction_arr) or o1.n_reference_instance != o2.n_reference_instance:
                raise Violation(f"loaded approximator (backend {case['backend']}) labels components differently")
    elif what in ("handler", "zerotp"):
        if what == "handler":
            obj = lib.handler(case["handler"])
            cls, mets = EdgeCaseHandler, list(case["handler"]["metrics"])
        else:
            obj = list(lib.handler({"std": "NAN", "metrics": {"DSC": case["vals"]}, "via_default": {"DSC": case["via_default"]} if "via_default" in case else {}}).listmetric_zeroTP_handling.values())[0]
            cls, mets = MetricZeroTPEdgeCaseHandling, [None]
        loaded, _ = roundtrip(obj, cls, d, "h")
        for m in mets:
            for tp, npred, nref in ((0, 0, 0), (0, 0, 2), (0, 3, 0), (0, 2, 2), (1, 2, 2)):
                if what == "handler":
                    r1 = obj.handle_zero_tp(lib.metric(m), tp, npred, nref)
                    r2 = loaded.handle_zero_tp(lib.metric(m), tp, npred, nref)
                else:
                    r1, r2 = obj(tp, npred, nref), loaded(tp, npred, nref)
                    want = (False, None) if tp else (True, lib.EDGE_VALUES[case["vals"][{(0, 0): 0, (0, 1): 1, (1, 0): 2, (1, 1): 3}[(npred > 0, nref > 0)]]])
                    if r1[0] != want[0] or (want[0] and not H.same_value(r1[1], want[1], 0)):
                        raise Violation(f"MetricZeroTPEdgeCaseHandling built from {case['vals']} (via_default={case.get('via_default')}) answers {r1} for tp/pred/ref={tp}/{npred}/{nref}, configured {want}")
                if r1[0] != r2[0] or not H.same_value(r1[1], r2[1], 0):
                    raise Violation(f"loaded {cls.__name__} answers {r2} instead of {r1} for metric {m}, tp/pred/ref={tp}/{npred}/{nref}")
        if what == "handler":
            a, b = obj.handle_empty_list_std(), loaded.handle_empty_list_std()
            if a.name != b.name:
                raise Violation(f"loaded handler has empty-list std {b} instead of {a}")
    elif what == "labelgroup":
        g = case["group"]
        obj = (LabelMergeGroup if g["kind"] in ("merge", "merge_single") else LabelGroup)(list(g["labels"]), g["kind"] in ("single", "merge_single"))
        loaded, _ = roundtrip(obj, type(obj), d, "g")
        probe = np.arange(0, 12).reshape(3, 4) % 8
        if sorted(obj.value_labels) != sorted(loaded.value_labels) or obj.single_instance != loaded.single_instance or not np.array_equal(obj(probe), loaded(probe)):
            raise Violation(f"loaded label group differs: {obj} vs {loaded}")
    elif what == "classgroups":
        obj = lib.groups(case["groups"])
        if case.get("as_list"):
            obj = H.lib_call(lambda: SegmentationClassGroups([obj[g["name"]] for g in case["groups"]]))
        loaded, _ = roundtrip(obj, SegmentationClassGroups, d, "cg")
        compare_groups(obj, loaded)
    else:
        import panoptica.metrics as PMm
        import panoptica.utils.constants as C
        import panoptica.utils.edge_case_handling as E
        import panoptica.utils.processing_pair as PP

        enum_cls = {"Metric": PMm.Metric, "InputType": PP.InputType, "CCABackend": C.CCABackend, "EdgeCaseResult": E.EdgeCaseResult,
                    "EdgeCaseZeroTP": E.EdgeCaseZeroTP, "MetricMode": PMm.MetricMode, "MetricType": PMm.MetricType}[case["enum"]]
        members = list(enum_cls)
        obj = members[case["index"] % len(members)]
        p1 = os.path.join(d, "e.yaml")
        H.lib_call(obj.save_to_config, p1)
        loaded = H.lib_call(enum_cls.load_from_config, p1)
        if loaded is not obj:
            raise Violation(f"enum member {obj} loads back as {loaded!r}")
