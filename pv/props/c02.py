"""C02 - bookkeeping identities of every result."""
from __future__ import annotations

import math

import numpy as np
from hypothesis import strategies as st

from .. import gen, harness as H, lib, pipemodel as PM, refmodel as M
from ..harness import Violation
from . import c01

LEVEL = "exploration"
RULE = (
    "(a) pipeline cases as in C01 but with matcher in {threshold, threshold+many-to-one, merge} and decision metric in "
    "{none, IoU, Dice, ASSD} (thresholds incl. exact candidate scores), all input types, clDSC as an additional instance "
    "metric in half of the 2-/3-D cases (its value may be NaN); (b) directly constructed "
    "PanopticaResult(num_pred<=50, num_ref<=50, 0<=tp<=min, lists of tp floats: IoU in [0,1] with Dice=2IoU/(1+IoU), "
    "ASSD>=0, RVD>-1). Oracle = invariants with independently obtained counts: tp+fn = reference instances counted by "
    "the model on the input; tp+fp = distinct labels of the library's matched prediction map (= input count for "
    "one-to-one matchers); every list has tp entries; sq/sq_std = fsum mean / population std; rq = tp/(tp+fp/2+fn/2); "
    "pq = sq*rq; ranges; sq_dsc>=sq; every listed decision value meets the threshold and tp = number of matched labels "
    "whose model score meets it. Non-trivial: tp>0 and (fp>0 or fn>0), or the decision filter rejects >=1 matched "
    "instance; distinct = distinct canonical case."
)
ASSUMPTIONS = [
    "Pool replaced by a serial order-preserving stand-in (justified by C15)",
    "faithfulness of the matched prediction map to the input partition is C04's property",
    "tolerance 1e-9 on aggregates; decision scores within 1e-9 of the threshold (ASSD) are not asserted",
]
BUDGET = {"quick": 400, "thorough": 5000}
BOUNDS = {"sides": "1-D<=16, 2-D<=8, 3-D<=5", "direct": "num_pred,num_ref<=50"}


def prepare(tier):
    lib.install_assd_snap()


@st.composite
def pipeline_case(draw):
    case = draw(c01.case_strategy(allow_rle=True))
    if case["matcher"] is not None:
        kind = draw(st.sampled_from(["naive", "naive_m2o", "merge"]))
        case["matcher"]["kind"] = "merge" if kind == "merge" else "naive"
        case["matcher"]["m2o"] = kind == "naive_m2o"
    case["kind"] = "pipeline"
    # clDSC as an additional instance metric in 2-/3-D (its value may be NaN for a true positive; the
    # bookkeeping identities must hold regardless)
    nd = 1 if "rle" in case else np.array(case["ref"]).ndim
    case["cldsc"] = nd >= 2 and draw(st.booleans())
    return case


@st.composite
def direct_case(draw):
    tp = draw(st.integers(0, 12))
    num_pred = tp + draw(st.integers(0, 38))
    num_ref = tp + draw(st.integers(0, 38))
    ious = draw(st.lists(st.one_of(st.floats(0.0, 1.0), st.sampled_from([0.0, 1.0, 0.5])), min_size=tp, max_size=tp))
    assd = draw(st.lists(st.floats(0.0, 50.0), min_size=tp, max_size=tp))
    rvd = draw(st.lists(st.floats(-0.99, 20.0), min_size=tp, max_size=tp))
    return {"kind": "direct", "num_pred": num_pred, "num_ref": num_ref, "tp": tp, "IOU": ious, "ASSD": assd, "RVD": rvd}


@st.composite
def equal_case(draw):
    """3-6 true positives with identical scores (the standard deviation must be exactly 0 up to rounding of
    a two-pass computation), as matched or unmatched input."""
    k = draw(st.integers(3, 6))
    tp_, tr_ = draw(st.sampled_from([([1, 1, 1, 1, 0, 0], [1, 1, 1, 1, 1, 1]), ([1, 1, 0], [1, 1, 1]), ([0, 1, 1, 1, 1], [1, 1, 1, 1, 0]),
                                     ([1, 1, 1, 1, 1, 1, 1], [1, 1, 1, 1, 1, 1, 0]), ([1, 1, 1, 0, 0, 0, 0, 0, 0, 0], [1, 1, 1, 1, 1, 1, 1, 1, 1, 1]),
                                     ([1] * 17 + [0] * 3, [1] * 20), ([1, 1, 1, 1, 1, 1], [0, 1, 1, 1, 1, 1])]))
    pred, ref = [], []
    for j in range(k):
        pred += [a * (j + 1) for a in tp_] + [0, 0]
        ref += [b * (j + 1) for b in tr_] + [0, 0]
    it = draw(st.sampled_from(["MATCHED_INSTANCE", "UNMATCHED_INSTANCE", "SEMANTIC"]))
    return {"kind": "pipeline", "pred": pred, "ref": ref, "dtype": "uint8", "input": it, "backend": None,
            "matcher": None if it == "MATCHED_INSTANCE" else {"kind": "naive", "metric": "IOU", "thr": {"v": draw(st.sampled_from([0.0, 0.25]))}, "m2o": False},
            "decision": None, "cldsc": False}


def searches(tier):
    n = BUDGET[tier]
    return [("pipeline", pipeline_case(), n * 3 // 4), ("direct", direct_case(), n // 4), ("equal_scores", equal_case(), max(8, n // 10))]


def identities(lr, stats):
    tp, fp, fn = lr["tp"], lr["fp"], lr["fn"]
    for m, l in lr["lists"].items():
        if len(l) != tp:
            raise Violation(f"list of {m} has {len(l)} entries but tp={tp}")
    if tp + fp != lr["num_pred_instances"]:
        raise Violation(f"tp+fp={tp + fp} != num_pred_instances={lr['num_pred_instances']}")
    if tp + fn != lr["num_ref_instances"]:
        raise Violation(f"tp+fn={tp + fn} != num_ref_instances={lr['num_ref_instances']}")
    if tp < 0 or fp < 0 or fn < 0:
        raise Violation(f"negative count tp/fp/fn={tp}/{fp}/{fn}")
    if tp == 0:
        if lr["num_pred_instances"] + lr["num_ref_instances"] > 0:
            if not H.same_value(lr["rq"], 0.0):
                raise Violation(f"rq={lr['rq']!r} with tp=0")
        elif not (isinstance(lr["rq"], float) and math.isnan(lr["rq"])):
            raise Violation(f"rq={lr['rq']!r} without any instance: tp/(tp+fp/2+fn/2) is 0/0 (NaN)")
        return
    want_rq = tp / (tp + fp / 2 + fn / 2)
    if not H.same_value(lr["rq"], want_rq, 1e-12):
        raise Violation(f"rq={lr['rq']!r} != tp/(tp+fp/2+fn/2)={want_rq!r}")
    names = {"IOU": ("sq", "sq_std", "pq"), "DSC": ("sq_dsc", "sq_dsc_std", "pq_dsc"), "ASSD": ("sq_assd", "sq_assd_std", None), "RVD": ("sq_rvd", "sq_rvd_std", None),
             "clDSC": ("sq_cldsc", "sq_cldsc_std", "pq_cldsc")}
    for m, l in lr["lists"].items():
        a, s, pqn = names[m]
        if isinstance(lr.get(a), str):
            raise Violation(f"{a} could not be computed although tp={tp}: {lr[a]}")
        if not H.same_value(lr[a], M.mean(l), 1e-9):
            raise Violation(f"{a}={lr[a]!r} is not the mean {M.mean(l)!r} of its list")
        if not H.same_value(lr[s], M.pstd(l), 1e-9):
            raise Violation(f"{s}={lr[s]!r} is not the population std {M.pstd(l)!r} of its list")
        if pqn and not H.same_value(lr[pqn], lr[a] * lr["rq"], 1e-12):
            raise Violation(f"{pqn}={lr[pqn]!r} != {a}*rq={lr[a] * lr['rq']!r}")
    for m in ("IOU", "DSC"):
        if m in lr["lists"]:
            for v in lr["lists"][m]:
                if not (0.0 <= v <= 1.0):
                    raise Violation(f"{m} value {v!r} outside [0,1]")
    for k in ("rq", "pq", "pq_dsc", "sq", "sq_dsc"):
        v = lr.get(k)
        if isinstance(v, float) and not (-1e-12 <= v <= 1.0 + 1e-12):
            raise Violation(f"{k}={v!r} outside [0,1] with tp>0")
    if isinstance(lr.get("sq"), float) and isinstance(lr.get("sq_dsc"), float) and lr["sq_dsc"] < lr["sq"] - 1e-12:
        raise Violation(f"sq_dsc={lr['sq_dsc']!r} < sq={lr['sq']!r}")


def check(case, stats):
    if case["kind"] == "direct":
        return check_direct(case, stats)
    from panoptica import InputType

    lib.run_primes(case.get("primes"))
    pred, ref, cfg = c01.resolve(case)
    mets = list(case.get("imetrics", PM.METRICS)) + (["clDSC"] if case.get("cldsc") else [])
    cfg["imetrics"] = mets
    ev = lib.evaluator(cfg)
    res, isd = H.lib_call(ev.evaluate, pred, ref)["ungrouped"]
    lr = PM.lib_result(res, metrics=mets)
    if case.get("cldsc"):
        with H.quiet():
            for k in ("sq_cldsc", "sq_cldsc_std", "pq_cldsc"):
                try:
                    v = getattr(res, k)
                    lr[k] = None if v is None else float(v)
                except Exception as e:
                    lr[k] = f"ERR:{type(e).__name__}"
    pin = PM.model_instances(pred, cfg["input"], cfg.get("backend"))
    rin = PM.model_instances(ref, cfg["input"], cfg.get("backend"))
    mk = "none" if not cfg.get("matcher") else cfg["matcher"]["kind"] + ("+m2o" if cfg["matcher"].get("m2o") else "")
    classes = [f"input={cfg['input']}", f"matcher={mk}", f"decision={cfg['decision'][0] if cfg.get('decision') else None}"] + (["with_clDSC"] if case.get("cldsc") else [])
    # independent counts
    rejected = 0
    if lr["num_ref_instances"] != len(rin):
        raise Violation(f"num_ref_instances={lr['num_ref_instances']} but the input holds {len(rin)} reference instances")
    one_to_one = mk in ("none", "naive")
    if one_to_one and lr["num_pred_instances"] != len(pin):
        raise Violation(f"num_pred_instances={lr['num_pred_instances']} but the input holds {len(pin)} predicted instances")
    if pin and rin:
        mp = np.asarray(isd.prediction_arr(InputType.MATCHED_INSTANCE))
        mr = np.asarray(isd.reference_arr(InputType.MATCHED_INSTANCE))
        mpi, mri = M.instances(mp), M.instances(mr)
        if lr["num_pred_instances"] != len(mpi):
            raise Violation(f"num_pred_instances={lr['num_pred_instances']} but the matched prediction map holds {len(mpi)} instances")
        both = [l for l in mpi if l in mri]
        if cfg.get("decision"):
            dm, dt = cfg["decision"]
            eps = M.tie_eps(dm)
            vals = [M.metric_value(dm, mpi[l], mri[l], mr.shape) for l in both]
            if not any(eps and abs(v - dt) <= eps and v != dt for v in vals):
                passing = sum(1 for v in vals if M.beats(dm, v, dt))
                rejected = len(both) - passing
                if lr["tp"] != passing:
                    raise Violation(f"tp={lr['tp']} but {passing} of the {len(both)} matched instances meet the decision threshold {dm} {dt!r}")
            for v in lr["lists"][dm]:
                if not M.beats(dm, v, dt) and not (eps and abs(v - dt) <= eps):
                    raise Violation(f"listed {dm} value {v!r} does not meet the decision threshold {dt!r}")
        elif lr["tp"] != len(both):
            raise Violation(f"tp={lr['tp']} but {len(both)} labels are shared by the matched maps")
    identities(lr, stats)
    nontrivial = (lr["tp"] > 0 and (lr["fp"] > 0 or lr["fn"] > 0)) or rejected > 0
    if rejected:
        classes.append("decision_rejects")
    stats.record(case, nontrivial, classes)


def check_direct(case, stats):
    from panoptica import PanopticaResult
    from panoptica.metrics import Metric
    from panoptica.utils.edge_case_handling import EdgeCaseHandler

    tp = case["tp"]
    lists = {
        Metric.IOU: list(case["IOU"]),
        Metric.DSC: [2 * i / (1 + i) for i in case["IOU"]],
        Metric.ASSD: list(case["ASSD"]),
        Metric.RVD: list(case["RVD"]),
    }
    res = H.lib_call(lambda: PanopticaResult(None, None, case["num_pred"], case["num_ref"], tp, lists, EdgeCaseHandler()))
    lr = PM.lib_result(res)
    if lr["fp"] != case["num_pred"] - tp or lr["fn"] != case["num_ref"] - tp:
        raise Violation(f"fp/fn={lr['fp']}/{lr['fn']} for num_pred/num_ref/tp={case['num_pred']}/{case['num_ref']}/{tp}")
    identities(lr, stats)
    stats.record(case, tp > 0 and (lr["fp"] > 0 or lr["fn"] > 0), ["direct", f"tp={'0' if tp == 0 else '>0'}"])
