"""C08 - zero-true-positive cases follow the edge-case handler."""
from __future__ import annotations

import itertools
import os

import numpy as np
from hypothesis import strategies as st

from .. import gen, harness as H, lib, pipemodel as PM, refmodel as M
from ..harness import Violation

LEVEL = "exploration"
RES = ["INF", "NAN", "ZERO", "ONE", "NONE"]
ALLM = ["DSC", "IOU", "ASSD", "RVD"]
SQ = {"IOU": "sq", "DSC": "sq_dsc", "ASSD": "sq_assd", "RVD": "sq_rvd", "clDSC": "sq_cldsc"}
RULE = (
    "Handlers: the library default (a quarter of the cases, after other handlers may have been constructed) or drawn from the full product (per evaluated metric 4 scenarios x 5 results {INF,NAN,ZERO,ONE,NONE}; 5 "
    "empty-list values), instance-metric subsets of {DSC,IOU,ASSD,RVD} (+clDSC in 2-/3-D), every scenario realised "
    "through each input type: no instances; empty prediction; empty reference; both non-empty without a match "
    "(disjoint; overlapping below the matching threshold; matched input with disjoint label sets; every matched "
    "instance rejected by the decision threshold). Exhaustive sub-domain: all 5^4 x 5 handler settings of one metric "
    "(quick: metric chosen by seed; thorough: each of the four) x 4 scenarios x 3 input types. Oracle: evaluation "
    "completes, tp=0, fp/fn = model instance counts, sq_<m> is exactly (NaN/None/inf-aware) the value configured for the "
    "scenario the model classifies the input into, sq_<m>_std = configured empty-list value; metamorphic half: with tp>0 "
    "two different handlers give identical results. Non-trivial: the four scenario values of an inspected metric are "
    "not all equal (otherwise a mix-up is invisible); distinct = distinct canonical case."
)
ASSUMPTIONS = [
    "Pool replaced by a serial order-preserving stand-in (justified by C15)",
    "the handler defines every evaluated metric (documented precondition)",
]
BUDGET = {"quick": 300, "thorough": 3000}
BOUNDS = {"sides": "1-D<=16, 2-D<=8, 3-D<=5"}


def prepare(tier):
    lib.install_assd_snap()


@st.composite
def handler_cfg(draw, metrics):
    """'metrics' holds the effective value of each scenario; 'via_default' says, per metric, which
    of them the constructor receives through default_result instead of its own argument."""
    cfg = {"std": draw(st.sampled_from(RES)), "metrics": {m: [draw(st.sampled_from(RES)) for _ in range(4)] for m in metrics}}
    if draw(st.integers(0, 7)) == 0:
        # the constructor's own per-metric table with another empty-list value (all five metrics, like the default)
        return {"std": cfg["std"], "metrics": {m: list(v) for m, v in lib.DEFAULT_HANDLER["metrics"].items()}}
    via = {}
    for m in metrics:
        if draw(st.integers(0, 2)) == 0:
            default = draw(st.sampled_from(RES))
            explicit = [draw(st.booleans()) for _ in range(4)]
            cfg["metrics"][m] = [v if e else default for v, e in zip(cfg["metrics"][m], explicit)]
            via[m] = [default, explicit]
    if via:
        cfg["via_default"] = via
    return cfg


@st.composite
def case_strategy(draw):
    pred, ref = draw(gen.pair(k=3, derived_weight=2))
    it = draw(st.sampled_from(["SEMANTIC", "UNMATCHED_INSTANCE", "MATCHED_INSTANCE"]))
    real = draw(st.sampled_from(["no_instances", "empty_pred", "empty_ref", "disjoint", "below_thr", "label_disjoint", "decision_rejects", "as_is", "as_is"]))
    thr = {"v": 0.5}
    dec = None
    if real == "no_instances":
        pred[...] = 0
        ref[...] = 0
    elif real == "empty_pred":
        pred[...] = 0
    elif real == "empty_ref":
        ref[...] = 0
    elif real == "disjoint":
        pred[ref != 0] = 0
    elif real == "below_thr":
        thr = {"v": draw(st.sampled_from([1.0, 0.99]))}
        # make sure nothing is a perfect match: knock one voxel out of every predicted instance that equals a reference
        if pred.any():
            idx = np.argwhere(pred != 0)
            k = draw(st.integers(0, len(idx) - 1))
            pred[tuple(idx[k])] = 0
    elif real == "label_disjoint":
        it = "MATCHED_INSTANCE"
        pred[pred != 0] += 10
    elif real == "decision_rejects":
        dec = ["IOU", 1.0]
        if pred.any():
            idx = np.argwhere(pred != 0)
            k = draw(st.integers(0, len(idx) - 1))
            pred[tuple(idx[k])] = 0
    mets = draw(st.lists(st.sampled_from(ALLM), min_size=1, max_size=4, unique=True))
    if dec and "IOU" not in mets:
        mets.append("IOU")
    if ref.ndim >= 2 and draw(st.integers(0, 3)) == 0:
        mets.append("clDSC")
    mm = draw(st.sampled_from(["IOU", "DSC"]))
    dtype = "uint8"
    if draw(st.integers(0, 3)) == 0:  # label values beyond one byte (the two sides may then need different widths internally)
        f = draw(st.sampled_from([100, 300, 20000]))
        if it == "MATCHED_INSTANCE":
            pred, ref = pred * f, ref * f
        else:
            pred, ref = pred * f, ref * draw(st.sampled_from([1, f]))
        dtype = draw(st.sampled_from(["uint32", "uint64"] + (["int32", "int64"] if it == "SEMANTIC" else [])))
    return {
        "pred": pred.tolist(),
        "ref": ref.tolist(),
        "dtype": dtype,
        "input": it,
        "backend": draw(st.sampled_from([None, "cc3d", "scipy"])) if it == "SEMANTIC" else None,
        "matcher": None if it == "MATCHED_INSTANCE" else {"kind": draw(st.sampled_from(["naive", "naive", "merge"])), "metric": mm, "thr": thr, "m2o": False},
        "decision": dec,
        "imetrics": mets,
        # a quarter of the cases use the library's default handler (after other handlers may have been built by the primes)
        "handler": draw(handler_cfg(mets)) if draw(st.integers(0, 3)) else None,
        "handler2": draw(handler_cfg(mets)),
        "real": real,
        "primes": draw(st.lists(st.sampled_from(sorted(lib.PRIMES)), min_size=0, max_size=2)) if draw(st.integers(0, 2)) == 0 else [],
    }


def searches(tier):
    return [("scenarios", case_strategy(), BUDGET[tier])]


SCEN_INPUT = {
    "NO_INSTANCES": ([0, 0, 0, 0, 0], [0, 0, 0, 0, 0]),
    "EMPTY_PRED": ([0, 0, 0, 0, 0], [1, 1, 0, 0, 0]),
    "EMPTY_REF": ([0, 0, 0, 1, 1], [0, 0, 0, 0, 0]),
    "NORMAL": ([0, 0, 0, 2, 2], [1, 1, 0, 0, 0]),
}


def enumerations(tier):
    seed = int(os.environ.get("VERIF_SEED", "1") or "1")
    metrics = ALLM if tier == "thorough" else [ALLM[seed % 4]]

    def g():
        for m in metrics:
            for vals in itertools.product(RES, repeat=4):
                for std in RES:
                    for scen, (p, r) in SCEN_INPUT.items():
                        for it in ("SEMANTIC", "UNMATCHED_INSTANCE", "MATCHED_INSTANCE"):
                            yield {
                                "pred": p, "ref": r, "dtype": "uint8", "input": it, "backend": None,
                                "matcher": None if it == "MATCHED_INSTANCE" else {"kind": "naive", "metric": "IOU", "thr": {"v": 0.5}, "m2o": False},
                                "decision": None, "imetrics": [m], "handler": {"std": std, "metrics": {m: list(vals)}},
                                "handler2": None, "real": "enum:" + scen, "enum": True,
                            }
    return [("handler_product_one_metric", g())]


def _cfg(case):
    from . import c01

    pred, ref, cfg = c01.resolve({k: case[k] for k in ("pred", "ref", "dtype", "input", "backend", "matcher", "decision")})
    cfg["imetrics"] = case["imetrics"]
    return pred, ref, cfg


def observe(res, mets):
    out = {}
    with H.quiet():
        for k in ("tp", "fp", "fn"):
            out[k] = int(getattr(res, k))
        for m in mets:
            for suffix in ("", "_std"):
                k = SQ[m] + suffix
                try:
                    v = getattr(res, k)
                    out[k] = None if v is None else float(v)
                except Exception as e:
                    out[k] = f"ERR:{type(e).__name__}:{e}"
    return out


def check(case, stats):
    lib.run_primes(case.get("primes"))
    pred, ref, cfg = _cfg(case)
    mets = case["imetrics"]
    base = [m for m in mets if m != "clDSC"]
    exps, complete, info = PM.expected_results(pred, ref, cfg, metrics=base or ["IOU"])
    zero_tp = all(e["tp"] == 0 for e in exps)
    n_pred, n_ref = info["n_pred"], info["n_ref"]
    hc = case["handler"]
    lib_handler = hc  # what is passed to the evaluator (None = library default)
    if hc is None:
        hc = {"std": lib.DEFAULT_HANDLER["std"], "metrics": {m: lib.DEFAULT_HANDLER["metrics"][m] for m in mets}}
    if zero_tp:
        scen = "NO_INSTANCES" if n_pred + n_ref == 0 else "EMPTY_PRED" if n_pred == 0 else "EMPTY_REF" if n_ref == 0 else "NORMAL"
        nontrivial = any(len(set(hc["metrics"][m])) > 1 for m in mets)
        stats.record(case, nontrivial, [f"scenario={scen}", f"input={cfg['input']}", f"real={case['real'].split(':')[0]}", "default_handler" if lib_handler is None else "custom_handler"])
        ev = lib.evaluator({**cfg, "handler": lib_handler, "gmetrics": []})
        res = H.lib_call(ev.evaluate, pred, ref)["ungrouped"][0]
        ob = H.lib_call(observe, res, mets)
        if ob["tp"] != 0:
            raise Violation(f"tp={ob['tp']} but the definitions give no true positive")
        # fp/fn are the instance counts; a merging matcher followed by a rejecting decision threshold may have
        # merged fragments, so the prediction count is the model's count after matching (= input count otherwise)
        if complete and not any(ob["fp"] == e["fp"] and ob["fn"] == e["fn"] for e in exps):
            raise Violation(f"fp/fn={ob['fp']}/{ob['fn']} but the instance counts are {sorted({(e['fp'], e['fn']) for e in exps})} (input: {n_pred} predicted, {n_ref} reference instances)")
        idx = lib.SCENARIOS.index(scen)
        for m in mets:
            want = lib.EDGE_VALUES[hc["metrics"][m][idx]]
            got = ob[SQ[m]]
            if isinstance(got, str) or not H.same_value(got, want, 0):
                raise Violation(f"{SQ[m]}={got!r} in scenario {scen}, handler configures {hc['metrics'][m][idx]} (scenario values {hc['metrics'][m]})")
            wstd = lib.EDGE_VALUES[hc["std"]]
            gstd = ob[SQ[m] + "_std"]
            if isinstance(gstd, str) or not H.same_value(gstd, wstd, 0):
                raise Violation(f"{SQ[m]}_std={gstd!r}, configured empty-list value is {hc['std']}")
    else:
        if case.get("handler2") is None:
            return
        stats.record(case, False, ["tp>0:handler_irrelevant", f"input={cfg['input']}"])
        obs = []
        for h in (lib_handler, case["handler2"]):
            ev = lib.evaluator({**cfg, "handler": h, "gmetrics": []})
            try:
                res = H.lib_call(ev.evaluate, pred, ref)["ungrouped"][0]
                obs.append(H.lib_call(observe, res, mets))
            except Violation as v:
                # an exception unrelated to the handler (e.g. clDSC on a non-contiguous crop) is outside this
                # property; only a *difference* between the two handlers is a violation
                obs.append({"raised": v.sig})
        if set(obs[0]) != set(obs[1]):
            raise Violation(f"outcome differs between two handlers although tp>0: {obs[0]} vs {obs[1]}")
        if "raised" in obs[0]:
            stats.count("tp>0:both_handlers_raise_identically")
        for k in obs[0]:
            a, b = obs[0][k], obs[1][k]
            if isinstance(a, str) or isinstance(b, str):
                if a != b:
                    raise Violation(f"{k} differs between two handlers although tp>0: {a!r} vs {b!r}")
            elif not H.same_value(a, b, 0):
                raise Violation(f"{k} differs between two handlers although tp>0: {a!r} vs {b!r}")
        stats.count("handler_independence_compared")
