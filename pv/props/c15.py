"""C15 - evaluation is pure: no input mutation, no history, option or worker dependence."""
from __future__ import annotations

import contextlib
import os
import shutil
import tempfile

import numpy as np
from hypothesis import strategies as st

from .. import gen, harness as H, lib, meta, pristine
from ..harness import Violation
from .c08 import handler_cfg
from .c12 import _map_to_labels

LEVEL = "exploration"
RULE = (
    "Histories generated as operation sequences (model-based / stateful testing; the whole sequence shrinks as one "
    "value): a pool of 1-3 shared evaluators of generated configurations (matcher, metrics, decision, handler, groups, "
    "constructor flags) and 1-4 generated inputs (C/Fortran/negative-stride layouts); operations: evaluate(ev_i, in_j) "
    "with result_all/save_group_times/log_times/verbose each in {unset, False, True}; construct further objects with "
    "default arguments (evaluator, EdgeCaseHandler, matchers) or a random evaluator and use it; construct an aggregator "
    "(with/without log_times) on ev_i in a scratch directory and feed it (optionally make_statistic); load a shipped "
    "config; read ev_i.resulting_metric_keys; save_to_config(ev_i); evaluate with the real multiprocessing pools; evaluate "
    "while the process reports 1/2/3/5 CPUs (serial and real pools); hand one processing-pair object to panoptic_evaluate "
    "twice, also after it went through the pipeline with another configuration's components (result = that of a fresh pair object); "
    "refill an input's arrays in place (flip / roll / exchange / clear) as a caller reusing its buffers does; switch an evaluator's "
    "timing flag with set_log_group_times; inputs of one history may differ in dimensionality and dtype, and the label set may hold a "
    "label (300) that only 16-bit inputs can carry. Oracle: "
    "pristine baselines - a server process forked right after import, before any panoptica object exists, forks one "
    "grandchild per (configuration, input) request; after every step the step's result (lazy attributes forced) equals "
    "the baseline exactly, caller arrays are byte-identical and keep dtype/shape/flags, resulting_metric_keys and the "
    "saved YAML text equal the pristine ones, real-pool result = serial baseline. Non-trivial: >=2 evaluate steps on one "
    "evaluator separated by a state-touching operation; distinct = distinct canonical history."
)
ASSUMPTIONS = [
    "serial pool stand-in everywhere except the explicit real-pool steps, which compare against it",
    "computation_time is excluded from comparisons (wall clock)",
]
BUDGET = {"quick": 110, "thorough": 500}
STEPS = {"quick": 12, "thorough": 25}
BOUNDS = {"steps": "<=12 (quick) / <=25 (thorough)", "evaluators": "<=3", "inputs": "<=4"}
TIMEOUT = {"quick": 1500, "thorough": 6 * 3600}

SERVERS: list = []
MY_SERVER = None
OPT = st.sampled_from([None, False, True])


# ----------------------------------------------------------------------------- pristine side
def _build_inputs(case_dtype, layout, pred, ref):
    p = gen.with_layout(np.array(pred).astype(case_dtype), layout)
    r = gen.with_layout(np.array(ref).astype(case_dtype), layout)
    return p, r


def pristine_handler(req):
    kind = req[0]
    if kind == "eval":
        _, cfg, pred, ref, dtype = req
        ev = lib.evaluator(cfg)
        p, r = _build_inputs(dtype, "C", pred, ref)
        try:
            with H.quiet():
                out = ev.evaluate(p, r)
                return {g: meta.observe(res) for g, (res, _) in out.items()}
        except Exception as e:  # noqa - an input this configuration refuses (e.g. clDSC on 1-D data, a handler without an entry for a metric)
            return {"__raised__": type(e).__name__}
    if kind == "keys":
        with H.quiet():
            return list(lib.evaluator(req[1]).resulting_metric_keys)
    if kind == "yaml":
        d = tempfile.mkdtemp(prefix="pv_c15p_")
        try:
            path = os.path.join(d, "c.yaml")
            with H.quiet():
                lib.evaluator(req[1]).save_to_config(path)
            return open(path).read()
        finally:
            shutil.rmtree(d, ignore_errors=True)
    raise ValueError(kind)


def prepare(tier):
    """Called in the parent right after import (before regressions and before forking the
    shard workers): one pristine server per shard plus one for the parent."""
    global MY_SERVER
    if not SERVERS:
        for _ in range(H.NSHARDS + 1):
            SERVERS.append(pristine.PristineServer(pristine_handler))
        MY_SERVER = SERVERS[-1]


def on_worker_start(i):
    global MY_SERVER
    MY_SERVER = SERVERS[i]


def ask(req):
    kind, val = MY_SERVER.request(req)
    if kind != "ok":
        raise H.HarnessError(f"pristine baseline failed: {val}")
    return val


# ----------------------------------------------------------------------------- generation
@st.composite
def ev_cfg(draw, it, labels):
    imets = draw(st.sampled_from([None, ["DSC"], ["DSC", "IOU"], ["IOU", "ASSD", "RVD"], ["DSC", "IOU", "ASSD", "RVD"]]))
    gmets = draw(st.sampled_from([None, [], ["DSC", "IOU"], ["IOU", "DSC"], ["RVD", "ASSD", "DSC"], ["DSC", "clDSC"]]))
    eff_i = imets or ["DSC", "IOU", "ASSD", "RVD"]
    dec = None
    if draw(st.integers(0, 2)) == 0:
        dm = draw(st.sampled_from([m for m in eff_i if m != "RVD"]))
        dec = [dm, draw(st.sampled_from([0.0, 0.5, 0.75]))]
    kind = draw(st.sampled_from(["naive", "naive_m2o", "merge"]))
    groups = None
    if draw(st.booleans()):
        groups = draw(gen.group_defs(labels=tuple(labels), max_groups=3))
        # every label must belong to a group: put the remaining ones into one more plain group
        rest = [l for l in labels if l not in {x for g in groups for x in g["labels"]}]
        if rest:
            groups.append({"name": "rest" + str(len(groups)), "labels": rest, "kind": "plain"})
    flags = {f: True for f in ("save_group_times", "log_times", "verbose") if draw(st.integers(0, 3)) == 0}
    return {
        "input": it, "backend": draw(st.sampled_from([None, "cc3d", "scipy"])) if it == "SEMANTIC" else None,
        "matcher": None if it == "MATCHED_INSTANCE" else {"kind": "merge" if kind == "merge" else "naive", "metric": draw(st.sampled_from(["IOU", "DSC"])), "thr": draw(st.sampled_from([0.0, 0.3, 0.5])), "m2o": kind == "naive_m2o"},
        "decision": dec, "imetrics": imets, "gmetrics": gmets,
        # usually a handler covering every metric in use; sometimes one that lacks entries (zero-TP inputs are then refused)
        "handler": draw(handler_cfg(sorted(set(eff_i) | set(gmets or ["DSC"])) if draw(st.integers(0, 3)) else ["DSC"])) if draw(st.integers(0, 3)) == 0 else None,
        "groups": groups, "flags": flags,
    }


@st.composite
def step(draw, nev, nin):
    op = draw(st.sampled_from(["evaluate"] * 5 + ["construct", "construct", "aggregate", "aggregate", "load_shipped", "keys", "save", "real_pool", "pair_twice", "refill", "refill", "set_times"]))
    s = {"op": op, "ev": draw(st.integers(0, nev - 1)), "in": draw(st.integers(0, nin - 1))}
    if op in ("evaluate", "real_pool") and draw(st.booleans()):
        s["cpus"] = draw(st.sampled_from([1, 2, 2, 2, 3, 5]))  # number of CPUs the process sees
    if op == "evaluate":
        s.update({"result_all": draw(OPT), "sgt": draw(OPT), "lt": draw(OPT), "vb": draw(OPT)})
    elif op == "pair_twice":
        s["vb"] = draw(st.booleans())
        s["first"] = draw(st.sampled_from(["same", "extra"]))  # components of the first evaluation of the pair object
    elif op == "refill":
        s["how"] = draw(st.sampled_from(["flip", "roll", "exchange", "clear_pred"]))
    elif op == "set_times":
        s["value"] = draw(st.booleans())
    elif op == "construct":
        s["what"] = draw(st.sampled_from(["evaluator_default", "handler_default", "naive_default", "merge_default", "evaluator_random_used",
                                          "evaluator_decision_outside_metrics", "evaluator_no_global_metrics", "evaluator_global_metrics_outside_instance_metrics", "approximator_default_used", "groups_object"]))
    elif op == "aggregate":
        s.update({"log_times": draw(st.booleans()), "stat": draw(st.booleans())})
    elif op == "load_shipped":
        s["name"] = draw(st.sampled_from(["panoptica_evaluator_BRATS", "panoptica_evaluator_ISLES", "panoptica_evaluator_VERSE", "panoptica_evaluator_unmatched_instance"]))
    return s


@st.composite
def tie_input(draw, label):
    """1-D semantic maps whose components form blocks; in a 'tie' block one reference component
    (6 voxels) overlaps two prediction components with exactly the same IoU (2/6 and 3/9) but
    different volumes, so the result depends on which candidate the matcher sees first."""
    blocks = draw(st.lists(st.sampled_from(["simple", "tie", "tie_mirrored"]), min_size=2, max_size=5))
    ref, pred = [0], [0]
    for b in blocks:
        if b == "simple":
            r, q = [1, 1, 1, 0], [0, 1, 1, 1]
        else:
            r, q = [1, 1, 1, 1, 1, 1, 0, 0, 0], [1, 1, 0, 1, 1, 1, 1, 1, 1]
            if b == "tie_mirrored":
                r, q = r[::-1], q[::-1]
        ref += r + [0, 0]
        pred += q + [0, 0]
    return {"pred": [x * label for x in pred], "ref": [x * label for x in ref], "layout": "C", "tie": True}


def history(max_steps):
    @st.composite
    def h(draw):
        it = draw(st.sampled_from(["SEMANTIC", "UNMATCHED_INSTANCE", "MATCHED_INSTANCE"]))
        labels = sorted(draw(st.sets(st.integers(1, 6), min_size=1, max_size=4)))
        if draw(st.integers(0, 3)) == 0:
            labels.append(300)  # representable in 16-bit inputs only
        nev, nin = draw(st.integers(1, 3)), draw(st.integers(1, 4))
        evs = [draw(ev_cfg(it, labels)) for _ in range(nev)]
        nd0 = draw(st.sampled_from([1, 2, 3]))
        mixed = draw(st.booleans())  # inputs of different dimensionality / dtype for the same evaluators
        ins = []
        for _ in range(nin):
            nd = draw(st.sampled_from([1, 2, 3])) if mixed else nd0
            dt = draw(st.sampled_from(["uint8", "uint16"]))
            usable = [l for l in labels if l < 256 or dt != "uint8"]
            p, r = draw(gen.pair(ndims=(nd,), k=len(usable) + 1, derived_weight=3))
            ins.append({"pred": _map_to_labels(p, usable).tolist(), "ref": _map_to_labels(r, usable).tolist(), "layout": draw(st.sampled_from(["C", "C", "F", "neg"])), "dtype": dt})
        if draw(st.integers(0, 4)) == 0:
            # a label that belongs to no class group (7 is never among the generated labels): evaluators with
            # groups refuse such an input - and must leave it alone
            x = ins[draw(st.integers(0, nin - 1))]
            side = draw(st.sampled_from(["pred", "ref"]))
            a = np.array(x[side])
            a[tuple(draw(st.integers(0, n - 1)) for n in a.shape)] = 7
            x[side] = a.tolist()
        if it == "SEMANTIC" and draw(st.booleans()):
            ins[draw(st.integers(0, nin - 1))] = draw(tie_input(labels[0]))
        if nin >= 2 and draw(st.booleans()):  # one input is another one with prediction and reference exchanged
            ins[-1] = {"pred": ins[0]["ref"], "ref": ins[0]["pred"], "layout": ins[-1]["layout"], "dtype": ins[0].get("dtype")}
        steps = draw(st.lists(step(nev, nin), min_size=3, max_size=max_steps))
        extra = draw(ev_cfg(it, labels))
        return {"input": it, "labels": labels, "dtype": "uint16", "evaluators": evs, "inputs": ins, "steps": steps, "extra": extra}
    return h()


def searches(tier):
    return [("histories", history(STEPS[tier]), BUDGET[tier])]


# ----------------------------------------------------------------------------- execution
@contextlib.contextmanager
def cpus(n):
    """The process reports n CPUs (default size of multiprocessing.Pool())."""
    if n is None:
        yield
        return
    saved = {k: getattr(os, k) for k in ("cpu_count", "process_cpu_count") if hasattr(os, k)}
    try:
        for k in saved:
            setattr(os, k, lambda n=n: n)
        yield
    finally:
        for k, v in saved.items():
            setattr(os, k, v)


def exact_diff(a, b):
    """Observations must be identical (NaN==NaN)."""
    da, db = a["dict"], b["dict"]
    if sorted(da) != sorted(db):
        return f"reported metric keys differ: {sorted(set(da) ^ set(db))}"
    for k in da:
        if not H.same_value(da[k], db[k], 0):
            return f"{k}: {da[k]!r} vs {db[k]!r}"
    if sorted(a["lists"]) != sorted(b["lists"]):
        return f"list metrics differ: {sorted(a['lists'])} vs {sorted(b['lists'])}"
    for m in a["lists"]:
        la, lb = a["lists"][m], b["lists"][m]
        if len(la) != len(lb) or any(not H.same_value(x, y, 0) for x, y in zip(la, lb)):
            return f"per-TP {m} values differ: {la} vs {lb}"
    return None


def check(case, stats):
    from panoptica import Panoptica_Aggregator, Panoptica_Evaluator
    from panoptica.instance_matcher import MaximizeMergeMatching, NaiveThresholdMatching
    from panoptica.utils.edge_case_handling import EdgeCaseHandler
    from panoptica.panoptica_evaluator import panoptic_evaluate

    if MY_SERVER is None:
        raise H.HarnessError("pristine server not started")
    dtype = case["dtype"]
    base_cache = {}

    version = [0] * len(case["inputs"])  # bumped whenever the caller refills an input's arrays in place

    def baseline(i, j):
        key = (i, j, version[j])
        if key not in base_cache:
            base_cache[key] = ask(("eval", case["evaluators"][i], arrays[j][0].tolist(), arrays[j][1].tolist(), str(arrays[j][0].dtype)))
        return base_cache[key]

    evs = [H.lib_call(lib.evaluator, c) for c in case["evaluators"]]
    cur_cfg = [dict(c) for c in case["evaluators"]]
    arrays = [_build_inputs(x.get("dtype") or dtype, x["layout"], x["pred"], x["ref"]) for x in case["inputs"]]
    copies = [(p.copy(), r.copy()) for p, r in arrays]
    metas = [[(a.dtype, a.shape, a.strides, a.flags.c_contiguous, a.flags.f_contiguous, a.flags.writeable) for a in pr] for pr in arrays]
    def may_refuse(c):
        """Configurations that legitimately refuse some inputs: clDSC (2-D/3-D only) as a global metric, a handler
        without an entry for every metric in use (zero-TP inputs)."""
        h = c.get("handler")
        used = set(c.get("imetrics") or ["DSC", "IOU", "ASSD", "RVD"]) | set(c.get("gmetrics") if c.get("gmetrics") is not None else ["DSC"])
        return "clDSC" in (c.get("gmetrics") or []) or (h is not None and not used <= set(h["metrics"]))

    def call(c, fn, j=None):
        """lib_call, except that a configuration which may refuse inputs (or input j, if it holds a label of no class
        group) is allowed to raise here (what it does to the baselines of the evaluate steps is checked there)."""
        stray = j is not None and c.get("groups") and any((a == 7).any() for a in arrays[j])
        if not may_refuse(c) and not stray:
            return H.lib_call(fn)
        try:
            with H.quiet():
                return fn()
        except Exception:  # noqa
            stats.count("side_operations_refused")
            return None

    def arrays_untouched(where):
        for (p, r), (pc, rc), mt in zip(arrays, copies, metas):
            for a, c, m in zip((p, r), (pc, rc), mt):
                if not np.array_equal(a, c):
                    raise Violation(f"{where}: a caller array was modified")
                if (a.dtype, a.shape, a.strides, a.flags.c_contiguous, a.flags.f_contiguous, a.flags.writeable) != m:
                    raise Violation(f"{where}: dtype/shape/flags of a caller array changed")

    scratch = tempfile.mkdtemp(prefix="pv_c15_")
    evaluated = {}
    touched_since = {}
    nontrivial = False
    n_real = 0
    try:
        for k, s in enumerate(case["steps"]):
            i, j = s["ev"] % len(evs), s["in"] % len(arrays)
            op = s["op"]
            where = f"step {k} ({op})"
            if op in ("evaluate", "real_pool"):
                p, r = arrays[j]
                kw = {}
                want = baseline(i, j)
                if "__raised__" in want:
                    # a pristine process refuses this input under this configuration: so must this evaluator, whatever
                    # it has seen before - and refusing must not leave traces (checked by the later steps)
                    try:
                        with H.quiet(), (H.real_pools() if op == "real_pool" else contextlib.nullcontext()):
                            evs[i].evaluate(p, r)
                    except Exception:  # noqa
                        stats.count("refused_inputs_refused_again")
                    else:
                        raise Violation(f"{where}: a pristine evaluator raises {want['__raised__']} for input {j}, this evaluator (with its history) returned a result")
                    for t in touched_since:
                        touched_since[t] = True
                    arrays_untouched(where)
                    continue
                if op == "evaluate":
                    if s["result_all"] is not None:
                        kw["result_all"] = s["result_all"]
                    for key, name in (("sgt", "save_group_times"), ("lt", "log_times"), ("vb", "verbose")):
                        if s[key] is not None:
                            kw[name] = s[key]
                    with cpus(s.get("cpus")):
                        out = H.lib_call(evs[i].evaluate, p, r, **kw)
                else:
                    with H.real_pools(), cpus(s.get("cpus")):
                        out = H.lib_call(evs[i].evaluate, p, r)
                    n_real += 1
                want = baseline(i, j)
                if sorted(out) != sorted(want):
                    raise Violation(f"{where}: groups {sorted(out)} vs pristine {sorted(want)}")
                for g, (res, _) in out.items():
                    with H.quiet():
                        H.lib_call(res.calculate_all)
                    msg = exact_diff(want[g], meta.observe(res))
                    if msg:
                        raise Violation(f"{where}, evaluator {i}, input {j}, options {kw}, group {g!r}: result differs from a pristine process: {msg}")
                if evaluated.get(i) and touched_since.get(i):
                    nontrivial = True
                evaluated[i] = True
                touched_since[i] = False
                for t in touched_since:
                    if t != i:
                        touched_since[t] = True
            else:
                for t in list(evaluated):
                    touched_since[t] = True
                if op == "refill":
                    # the caller reuses its buffers: new contents in the same array objects
                    p, r = arrays[j]
                    how = s["how"]
                    if how == "flip":
                        newp, newr = p[::-1].copy(), r[::-1].copy()
                    elif how == "roll":
                        newp, newr = np.roll(p, 1, axis=-1), np.roll(r, 1, axis=-1)
                    elif how == "exchange":
                        newp, newr = r.copy(), p.copy()
                    else:
                        newp, newr = np.zeros_like(p), r.copy()
                    p[...] = newp
                    r[...] = newr
                    copies[j] = (p.copy(), r.copy())
                    version[j] += 1
                    stats.count("inputs_refilled_in_place")
                elif op == "set_times":
                    # an explicit change of the configuration (not "use"): the saved configuration follows it
                    H.lib_call(evs[i].set_log_group_times, s["value"])
                    cur_cfg[i] = {**cur_cfg[i], "flags": {**(cur_cfg[i].get("flags") or {}), "save_group_times": s["value"]}}
                elif op == "construct":
                    w = s["what"]
                    if w == "evaluator_default":
                        H.lib_call(Panoptica_Evaluator)
                    elif w == "handler_default":
                        H.lib_call(EdgeCaseHandler)
                    elif w == "naive_default":
                        H.lib_call(NaiveThresholdMatching)
                    elif w == "merge_default":
                        H.lib_call(MaximizeMergeMatching)
                    elif w == "evaluator_decision_outside_metrics":
                        # legal to construct (evaluate would refuse): must not influence any other object
                        e3 = H.lib_call(lambda: Panoptica_Evaluator(expected_input=lib.input_type(case["input"]), decision_metric=lib.metric("clDSC"), decision_threshold=0.5,
                                                                    instance_approximator=lib.approximator(None) if case["input"] == "SEMANTIC" else None,
                                                                    instance_matcher=lib.matcher({"kind": "naive", "metric": "IOU", "thr": 0.5}) if case["input"] != "MATCHED_INSTANCE" else None))
                        try:  # ... and someone tries it anyway (it is refused)
                            with H.quiet():
                                e3.evaluate(*arrays[j])
                        except Exception:  # noqa
                            stats.count("side_operations_refused")
                    elif w == "evaluator_no_global_metrics":
                        H.lib_call(lambda: Panoptica_Evaluator(global_metrics=[], decision_metric=lib.metric("IOU"), decision_threshold=0.5))
                    elif w == "evaluator_global_metrics_outside_instance_metrics":
                        # default instance metrics, global metrics that are not among them
                        H.lib_call(lambda: Panoptica_Evaluator(global_metrics=[lib.metric("DSC"), lib.metric("clDSC"), lib.metric("RVD")]))
                    elif w == "approximator_default_used":
                        from panoptica import ConnectedComponentsInstanceApproximator, SemanticPair
                        a_ = ConnectedComponentsInstanceApproximator()
                        for probe in (np.eye(3, dtype=np.uint8), np.eye(2, dtype=np.uint8)[None].repeat(2, 0)):
                            H.lib_call(lambda: a_.approximate_instances(SemanticPair(probe.copy(), probe.copy())))
                    elif w == "groups_object":
                        H.lib_call(lambda: lib.groups([{"name": "a", "labels": [1, 2], "kind": "merge"}, {"name": "b", "labels": [3], "kind": "single"}]))
                    else:
                        e2 = H.lib_call(lib.evaluator, case["extra"])
                        call(case["extra"], lambda: e2.evaluate(*arrays[j]), j)
                elif op == "aggregate":
                    d = os.path.join(scratch, f"agg{k}")
                    os.makedirs(d)
                    agg = H.lib_call(lambda: Panoptica_Aggregator(evs[i], os.path.join(d, "out.tsv"), log_times=s["log_times"]))
                    done = call(case["evaluators"][i], lambda: (agg.evaluate(arrays[j][0], arrays[j][1], f"subject{k}"), True)[1], j)
                    if s["stat"] and done:
                        H.lib_call(agg.make_statistic)
                elif op == "load_shipped":
                    H.lib_call(Panoptica_Evaluator.load_from_config_name, s["name"])
                elif op == "pair_twice":
                    # one processing-pair object handed to the pipeline function twice
                    cfg = case["evaluators"][i]
                    if may_refuse(cfg) or may_refuse(case["extra"]):
                        stats.count("pair_twice_skipped:configuration_may_refuse_inputs")
                        arrays_untouched(where)
                        continue
                    pair = H.lib_call(lambda: lib.input_type(cfg["input"]).value(arrays[j][0], arrays[j][1]))
                    def components(c):
                        k_ = {
                            "instance_approximator": lib.approximator(c.get("backend")) if c["input"] == "SEMANTIC" else None,
                            "instance_matcher": lib.matcher(c.get("matcher")) if c["input"] != "MATCHED_INSTANCE" else None,
                            "edge_case_handler": lib.handler(c.get("handler")), "verbose": s["vb"],
                        }
                        if c.get("imetrics") is not None:
                            k_["instance_metrics"] = [lib.metric(m) for m in c["imetrics"]]
                        if c.get("gmetrics") is not None:
                            k_["global_metrics"] = [lib.metric(m) for m in c["gmetrics"]]
                        if c.get("decision"):
                            k_["decision_metric"], k_["decision_threshold"] = lib.metric(c["decision"][0]), c["decision"][1]
                        return k_

                    def run(pr, k_):
                        res = H.lib_call(lambda: panoptic_evaluate(input_pair=pr, **k_))[0]
                        with H.quiet():
                            H.lib_call(res.calculate_all)
                        return meta.observe(res)

                    kw = components(cfg)
                    fresh = run(H.lib_call(lambda: lib.input_type(cfg["input"]).value(arrays[j][0], arrays[j][1])), kw)
                    # the pair object has been through the pipeline before (same components, or those of another configuration)
                    run(pair, kw if s.get("first", "same") == "same" else components(case["extra"]))
                    msg = exact_diff(fresh, run(pair, components(cfg)))
                    if msg:
                        raise Violation(f"{where}: a {cfg['input']} pair object that went through panoptic_evaluate before ({s.get('first', 'same')} components) gives a different result than a fresh pair object: {msg}")
                    stats.count("pair_objects_evaluated_twice")
                elif op == "keys":
                    with H.quiet():
                        got = list(H.lib_call(lambda: evs[i].resulting_metric_keys))
                    want = ask(("keys", case["evaluators"][i]))
                    if got != want:
                        raise Violation(f"{where}: evaluator {i} advertises metric keys that differ from a pristine evaluator: extra {[x for x in got if x not in want]}, missing {[x for x in want if x not in got]}, lengths {len(got)}/{len(want)}")
                elif op == "save":
                    path = os.path.join(scratch, f"cfg{k}.yaml")
                    H.lib_call(evs[i].save_to_config, path)
                    want = ask(("yaml", cur_cfg[i]))
                    if open(path).read() != want:
                        raise Violation(f"{where}: saved configuration of evaluator {i} differs from the one a pristine evaluator saves")
            arrays_untouched(where)
    finally:
        shutil.rmtree(scratch, ignore_errors=True)
    if n_real:
        stats.count("real_pool_comparisons", n_real)
    if any(x.get("tie") for x in case["inputs"]):
        stats.count("histories_with_exactly_tied_candidates")
    if any("cpus" in s for s in case["steps"]):
        stats.count("histories_with_changed_cpu_count")
    ops = sorted({s["op"] for s in case["steps"]})
    stats.record(case, nontrivial, [f"input={case['input']}", f"steps={min(len(case['steps']), 12)}"] + [f"op={o}" for o in ops])
