"""C14 - the merge matcher only merges when it improves the match."""
from __future__ import annotations

import itertools

import numpy as np
from hypothesis import strategies as st

from .. import gen, harness as H, lib, refmodel as M
from ..harness import Violation
from .c03 import read_assignment

LEVEL = "exploration"
RULE = (
    "Unmatched instance-map pairs in which references are covered by 2-4 prediction fragments (cuts along random axes, "
    "then shifts/grow/shrink/spurious/deleted instances; competing references; stray fragments; 1-3-D; plus a 1-D "
    "family of one reference block cut into 3-4 fragments that spill outside by drawn amounts) x metric in {IoU, "
    "Dice, ASSD} x threshold (grid, floats, exact candidate scores) x fresh matcher object or one that has matched the mirrored / rolled / exchanged pair before. Oracle: validity predicates (each prediction <=1 "
    "reference; seed meets the threshold on its own; every further member strictly improves the cumulative score in the "
    "metric's direction; final score >= seed score and meets the threshold) + membership in the reference model's merge "
    "outcomes under every order of tied candidates (equality when unique). Non-trivial: some reference overlaps >=2 "
    "predictions; distinct = distinct canonical case."
)
ASSUMPTIONS = [
    "Pool replaced by a serial order-preserving stand-in (justified by C15)",
    "both sides non-empty",
    "ASSD comparisons closer than 1e-9 are treated as ties (cumulative-improvement and outcome equality are then not asserted)",
]
BUDGET = {"quick": 600, "thorough": 6000}
BOUNDS = {"sides": "1-D<=16, 2-D<=8, 3-D<=5"}


@st.composite
def case_strategy(draw):
    pred, ref = draw(gen.fragment_pair())
    metric = draw(st.sampled_from(["IOU", "DSC", "ASSD", "ASSD"]))
    return {
        "pred": gen.compact(pred).tolist(),
        "ref": gen.compact(ref).tolist(),
        "dtype": draw(st.sampled_from(["uint8", "uint16", "uint32"])),
        "layout": draw(st.sampled_from(["C", "C", "C", "F", "neg", "T"])),
        "metric": metric,
        "thr": draw(gen.threshold(metric)),
        # the matcher object has matched another pair of the same shape before (None: fresh matcher)
        "reuse": draw(st.sampled_from([None, None, "mirrored", "rolled_pred", "exchanged"])),
        # instance labels need not be 1..n: reference labels l -> a*l + b, prediction labels l -> c*l + d
        "spread": draw(st.sampled_from([None, None, [2, 0, 1, 0], [1, 3, 3, 1], [3, 1, 2, 5]])),
    }


def prepare(tier):
    lib.install_assd_snap()


@st.composite
def tri_case(draw):
    """1-D family: one reference block and 3-4 fragments that cover parts of it and spill outside by drawn
    amounts, so that 'accepted, rejected, then accepted-or-rejected' sequences of merge decisions occur."""
    L = draw(st.integers(4, 12))
    nf = draw(st.integers(3, 4))
    left = draw(st.integers(0, 6))
    right = draw(st.integers(0, 6))
    n = left + L + right
    ref = np.zeros(n, dtype=np.int64)
    ref[left:left + L] = 1
    pred = np.zeros(n, dtype=np.int64)
    cuts = sorted(draw(st.lists(st.integers(0, n), min_size=nf - 1, max_size=nf - 1)))
    bounds = [0] + cuts + [n]
    for i in range(nf):
        pred[bounds[i]:bounds[i + 1]] = i + 1
    holes = draw(st.lists(st.integers(0, n - 1), min_size=0, max_size=4))
    pred[holes] = 0
    if draw(st.booleans()):  # a second reference competing for the fragments
        k = draw(st.integers(0, n - 1))
        if ref[k] == 0:
            ref[k] = 2
    metric = draw(st.sampled_from(["IOU", "IOU", "DSC", "ASSD"]))
    return {"pred": gen.compact(pred).tolist(), "ref": ref.tolist(), "dtype": "uint8", "metric": metric, "thr": draw(gen.threshold(metric))}


def searches(tier):
    n = BUDGET[tier]
    return [("fragments", case_strategy(), n), ("three_fragments_1d", tri_case(), n)]


def check(case, stats):
    from panoptica.utils.processing_pair import UnmatchedInstancePair

    pa, ra = np.array(case["pred"]), np.array(case["ref"])
    if case.get("spread"):
        a, b, c, d = case["spread"]
        ra, pa = np.where(ra != 0, a * ra + b, 0), np.where(pa != 0, c * pa + d, 0)
    pred = gen.with_layout(pa.astype(case["dtype"]), case.get("layout", "C"))
    ref = gen.with_layout(ra.astype(case["dtype"]), case.get("layout", "C"))
    if not pred.any() or not ref.any():
        stats.count("skipped:empty_side")
        return
    metric = case["metric"]
    shape = ref.shape
    pin, rin = M.instances(pred), M.instances(ref)
    cands = M.candidates(pin, rin, metric, shape)
    scores = [s for s, _, _ in cands]
    thr = gen.resolve_threshold(case["thr"], scores)
    single = {(r, p): s for s, r, p in cands}
    eps = M.tie_eps(metric)
    per_ref = {}
    for s, r, p in cands:
        per_ref.setdefault(r, []).append(p)
    nontrivial = any(len(v) >= 2 for v in per_ref.values())
    classes = [f"metric={metric}", f"ndim={ref.ndim}", f"max_frag={min(4, max((len(v) for v in per_ref.values()), default=0))}"]
    stats.record(case, nontrivial, classes)

    mt = lib.matcher({"kind": "merge", "metric": metric, "thr": thr})
    if case.get("reuse"):
        if case["reuse"] == "mirrored":
            p0, r0 = pred[::-1].copy(), ref[::-1].copy()
        elif case["reuse"] == "rolled_pred":
            p0, r0 = np.roll(pred, 1, axis=-1), ref.copy()
        else:
            p0, r0 = ref.copy(), pred.copy()
        if p0.any() and r0.any():
            H.lib_call(lambda: mt.match_instances(UnmatchedInstancePair(p0, r0)))
            stats.count("matcher_object_used_before")
    out = H.lib_call(lambda: mt.match_instances(UnmatchedInstancePair(pred.copy(order="K"), ref.copy(order="K"))))
    if not np.array_equal(np.asarray(out.reference_arr), ref):
        raise Violation("matching changed the reference map")
    assign, _ = read_assignment(out, pred, ref, set(rin))
    members = {}
    for r, p in assign:
        members.setdefault(r, []).append(p)
    merged_any = False
    for r, ps in members.items():
        R = rin[r]
        for p in ps:
            if (r, p) not in single:
                raise Violation(f"prediction {p} merged into reference {r} without overlapping it")
        ss = sorted(ps, key=lambda p: single[(r, p)], reverse=not M.DECREASING[metric])
        seed = ss[0]
        near = lambda a, b: eps and abs(a - b) <= eps
        if not M.beats(metric, single[(r, seed)], thr) and not near(single[(r, seed)], thr):
            raise Violation(f"reference {r} matched although no single prediction meets the threshold (best member {single[(r, seed)]!r} vs {thr!r})")
        U = frozenset().union(*[pin[p] for p in ps])
        final = M.metric_value(metric, U, R, shape)
        if M.better(metric, single[(r, seed)], final) and not near(single[(r, seed)], final):
            raise Violation(f"reference {r}: merged score {final!r} is worse than its best single member {single[(r, seed)]!r} (members {sorted(ps)})")
        if not M.beats(metric, final, thr) and not near(final, thr):
            raise Violation(f"reference {r}: merged score {final!r} does not meet threshold {thr!r}")
        if len(ps) > 1:
            merged_any = True
            vals = [single[(r, p)] for p in ss]
            tie_free = all(abs(a - b) > eps and a != b for a, b in zip(vals, vals[1:]))
            if tie_free:
                cur = single[(r, seed)]
                acc = set(pin[seed])
                for p in ss[1:]:
                    acc |= pin[p]
                    ns = M.metric_value(metric, frozenset(acc), R, shape)
                    if near(ns, cur):
                        break
                    if not M.better(metric, ns, cur):
                        raise Violation(f"reference {r}: merging prediction {p} changed the {metric} score from {cur!r} to {ns!r}, which is not strictly better")
                    cur = ns
    if merged_any:
        stats.count("cases_with_a_merge")
    outs, unique_ok = M.merge_outcomes(cands, metric, thr, pin, rin, shape)
    near_thr = eps and any(abs(s - thr) <= eps and s != thr for s in scores)
    if unique_ok and not near_thr:
        if assign not in outs:
            raise Violation(f"assignment {sorted(assign)} is not an outcome of the documented merge procedure; model: {[sorted(o) for o in outs][:3]}")
        if len(outs) == 1:
            stats.count("uniquely_determined")
