"""C01 - end-to-end results equal the published definitions."""
from __future__ import annotations

import itertools

import numpy as np
from hypothesis import strategies as st

from .. import gen, harness as H, lib, pipemodel as PM, refmodel as M
from ..harness import Violation
from .c08 import handler_cfg

LEVEL = "exploration"
RULE = (
    "Label-map pairs in 1-3-D (free labelling, boxes, derived predictions: shifts, grow/shrink, splits, merges, "
    "spurious/deleted instances, either side empty; 5 % long 1-D maps given as runs, up to ~200k voxels, so that "
    "coordinates pass 2^8 and 2^16) x input type {SEMANTIC, UNMATCHED_INSTANCE, MATCHED_INSTANCE} x "
    "backend {default, cc3d, scipy} x matching metric {IoU, Dice, ASSD} x threshold (grid, floats, exact candidate "
    "scores) x decision metric {none, IoU, Dice, ASSD} with threshold; instance metrics {DSC, IOU, ASSD, RVD} or, in a sixth of the cases, a subset incl. the empty list. "
    "Exhaustive sub-domains: all 1-D unmatched pairs up to length 4 (quick) / 5 (thorough) over labels {0,1,2} at "
    "thresholds {1/2, 1/3}; all 2x3 binary semantic pairs under the three backends; thorough adds all 2x2x2 binary "
    "semantic pairs (default backend). Oracle: the reference model's pipeline (flood-fill components, candidate scores "
    "from set arithmetic / brute-force ASSD, best-first one-to-one greedy with every order of tied candidates, decision "
    "filter, aggregates); the library result must be one of the model's outcomes (the outcome when unique). "
    "Non-trivial: both sides non-empty and >=1 candidate pair; distinct = distinct canonical case."
)
ASSUMPTIONS = [
    "Pool replaced by a serial order-preserving stand-in (justified by C15)",
    "tolerances: IoU/Dice/RVD 1e-12, ASSD and aggregates 1e-9; ASSD model values snapped to the library float after agreement within 1e-9",
    "labels <= 8 in narrow dtypes here; label magnitude and dtype are C09's domain",
]
BUDGET = {"quick": 600, "thorough": 6000}
BOUNDS = {"sides": "1-D<=16, 2-D<=8, 3-D<=5", "labels": "<=8"}


def prepare(tier):
    lib.install_assd_snap()


@st.composite
def rle_pair(draw):
    """Long 1-D maps given as runs (pred label, ref label, length): coordinates beyond 2^8 and 2^16,
    objects far apart, large background."""
    nruns = draw(st.integers(1, 8))
    runs = []
    big = 0
    for _ in range(nruns):
        n = draw(st.sampled_from([1, 1, 2, 3, 5, 9, 100, 255, 256, 257, 1000, 30000, 65536, 70000]))
        a, b = draw(st.sampled_from([0, 0, 1, 2, 3])), draw(st.sampled_from([0, 0, 1, 2, 3]))
        if n >= 30000:
            big += 1
            if big > 2:
                n = 7
            elif draw(st.integers(0, 7)) > 0:
                a = b = 0  # mostly large background gaps (the cheap way to push coordinates past 2^16)
            else:
                n = min(n, 30000)
        runs.append([a, b, n])
    return runs


def rle_arrays(runs):
    pred = np.concatenate([np.full(n, a, dtype=np.int64) for a, b, n in runs])
    ref = np.concatenate([np.full(n, b, dtype=np.int64) for a, b, n in runs])
    return pred, ref


@st.composite
def case_strategy(draw, allow_rle=False, allow_relabel=True):
    rle = None
    if allow_rle and draw(st.integers(0, 39)) == 0:
        rle = draw(rle_pair())
        pred, ref = np.zeros(1, dtype=np.int64), np.zeros(1, dtype=np.int64)
    else:
        pred, ref = draw(gen.pair(k=4, derived_weight=3))
    it = draw(st.sampled_from(["SEMANTIC", "UNMATCHED_INSTANCE", "MATCHED_INSTANCE"]))
    mmetric = draw(st.sampled_from(["IOU", "IOU", "DSC", "ASSD"]))
    dec = None
    if draw(st.booleans()):
        dm = draw(st.sampled_from(["IOU", "DSC", "ASSD"]))
        if draw(st.booleans()):  # strict decision thresholds so that matched instances get rejected
            dec = [dm, {"v": draw(st.sampled_from([0.0, 0.1, 0.25, 0.5] if dm == "ASSD" else [0.6, 0.75, 0.9, 1.0]))}]
        else:
            dec = [dm, draw(gen.threshold(dm))]
    if it == "SEMANTIC":
        dtype = draw(st.sampled_from(["uint8", "uint16", "int16", "int64", "uint32", "uint64", "int8"]))
    else:
        dtype = draw(st.sampled_from(["uint8", "uint16", "uint32", "uint64"]))
    case = {
        "pred": pred.tolist(),
        "ref": ref.tolist(),
        "dtype": dtype,
        "input": it,
        "backend": draw(st.sampled_from([None, "cc3d", "scipy"])) if it == "SEMANTIC" else None,
        "matcher": None if it == "MATCHED_INSTANCE" else {"kind": "naive", "metric": mmetric, "thr": draw(gen.threshold(mmetric)), "m2o": False},
        "decision": dec,
    }
    if it == "MATCHED_INSTANCE" and draw(st.integers(0, 3)) == 0:
        # a matcher that is configured but has nothing to do for matched input (often with the decision metric
        # and the strictest threshold, so that it "already enforced" more than the decision threshold asks for)
        um = dec[0] if dec and draw(st.booleans()) else mmetric
        strict = {"v": 0.0 if um == "ASSD" else 1.0}
        case["matcher"] = {"kind": "naive", "metric": um, "thr": strict if draw(st.booleans()) else draw(gen.threshold(um)), "m2o": False}
        case["force_matcher"] = True
    if rle is not None:
        case["rle"] = rle
        del case["pred"], case["ref"]
    # label values: in a quarter of the cases an injective renaming into wide value classes (jointly for matched
    # input), stored in a dtype that is wide enough - possibly only just
    if allow_relabel and rle is None and draw(st.integers(0, 3)) == 0:
        cls = ("small", "near8", "over8", "mult256", "near16", "over16")
        pl = [int(x) for x in np.unique(pred) if x]
        rl = [int(x) for x in np.unique(ref) if x]
        if it == "MATCHED_INSTANCE":
            mp = draw(gen.injective_relabel(sorted(set(pl) | set(rl)), cls))
            pm, rm = {l: mp[l] for l in pl}, {l: mp[l] for l in rl}
        else:
            pm, rm = draw(gen.injective_relabel(pl, cls)), draw(gen.injective_relabel(rl, cls))
        mx = max(list(pm.values()) + list(rm.values()) + [1])
        case["pred"] = gen.apply_relabel(pred, pm, "int64").tolist()
        case["ref"] = gen.apply_relabel(ref, rm, "int64").tolist()
        dts = gen.unsigned_at_least(mx) + (gen.signed_at_least(mx) if it == "SEMANTIC" else [])
        case["dtype"] = dts[0] if draw(st.booleans()) else draw(st.sampled_from(dts))
        case["relabelled"] = True
    # dimensions that must not matter for the quantities compared here: memory layout, logging/timing flags,
    # the edge-case handler (tp>0) and the selection of global metrics
    case["layout"] = draw(st.sampled_from(["C", "C", "C", "F", "neg", "T", "shared"]))
    if draw(st.integers(0, 3)) == 0:
        case["flags"] = {f: True for f in ("save_group_times", "log_times", "verbose") if draw(st.booleans())}
    if draw(st.integers(0, 3)) == 0:
        case["handler"] = draw(handler_cfg(["DSC", "IOU", "ASSD", "RVD", "clDSC"]))
    if draw(st.integers(0, 3)) == 0:
        case["gmetrics"] = draw(st.lists(st.sampled_from(PM.METRICS), min_size=0, max_size=3, unique=True))
    # instance metrics: usually all four; sometimes a subset, possibly the empty list (then only counts remain)
    if draw(st.integers(0, 5)) == 0:
        sub = draw(st.lists(st.sampled_from(PM.METRICS), min_size=0, max_size=3, unique=True))
        if dec and dec[0] not in sub:
            sub.append(dec[0])
        case["imetrics"] = [m for m in PM.METRICS if m in sub]
    case["primes"] = draw(st.lists(st.sampled_from(sorted(lib.PRIMES)), min_size=0, max_size=2)) if draw(st.integers(0, 2)) == 0 else []
    # the evaluator itself is not fresh: it has evaluated an input of another dimensionality (diagonal contact) before
    case["warm"] = draw(st.integers(0, 3)) == 0
    return case


def case_arrays(case):
    if "rle" in case:
        return rle_arrays(case["rle"])
    return np.array(case["pred"]), np.array(case["ref"])


def searches(tier):
    return [("pipeline", case_strategy(allow_rle=True), BUDGET[tier])]


def enumerations(tier):
    def g1():
        Ls = range(1, 5) if tier == "quick" else range(1, 6)
        for L in Ls:
            maps = [list(v) for v in itertools.product((0, 1, 2), repeat=L)]
            for r in maps:
                for p in maps:
                    for thr in (0.5, 1.0 / 3.0):
                        yield {"pred": p, "ref": r, "dtype": "uint8", "input": "UNMATCHED_INSTANCE", "backend": None,
                               "matcher": {"kind": "naive", "metric": "IOU", "thr": {"v": thr}, "m2o": False}, "decision": None, "enum": True}

    def g2():
        maps = [np.array(v).reshape(2, 3).tolist() for v in itertools.product((0, 1), repeat=6)]
        for r in maps:
            for p in maps:
                for bk in (None, "cc3d", "scipy"):
                    yield {"pred": p, "ref": r, "dtype": "uint8", "input": "SEMANTIC", "backend": bk,
                           "matcher": {"kind": "naive", "metric": "IOU", "thr": {"v": 0.5}, "m2o": False}, "decision": None, "enum": True}

    def g3():
        maps = [np.array(v).reshape(2, 2, 2).tolist() for v in itertools.product((0, 1), repeat=8)]
        for r in maps:
            for p in maps:
                yield {"pred": p, "ref": r, "dtype": "uint8", "input": "SEMANTIC", "backend": None,
                       "matcher": {"kind": "naive", "metric": "IOU", "thr": {"v": 0.5}, "m2o": False}, "decision": None, "enum": True}

    out = [("1d_unmatched_over_012", g1()), ("2x3_binary_semantic", g2())]
    if tier == "thorough":
        out.append(("2x2x2_binary_semantic", g3()))
    return out


def resolve(case):
    """Concrete config: thresholds given as 'score index' are resolved against the model's
    candidate scores."""
    pred, ref = case_arrays(case)
    lay = case.get("layout", "C")
    if lay == "shared":  # both maps are channels of one parent array
        parent = np.stack([ref, pred], axis=-1).astype(case["dtype"])
        ref, pred = parent[..., 0], parent[..., 1]
    else:
        pred, ref = gen.with_layout(pred.astype(case["dtype"]), lay), gen.with_layout(ref.astype(case["dtype"]), lay)
    cfg = {"input": case["input"], "backend": case.get("backend"), "imetrics": case.get("imetrics", PM.METRICS), "gmetrics": case.get("gmetrics", []),
           "flags": case.get("flags"), "handler": case.get("handler"), "force_matcher": case.get("force_matcher")}
    pin = PM.model_instances(pred, case["input"], case.get("backend"))
    rin = PM.model_instances(ref, case["input"], case.get("backend"))
    if case.get("matcher"):
        mc = dict(case["matcher"])
        if isinstance(mc["thr"], dict):
            sc = [s for s, _, _ in M.candidates(pin, rin, mc["metric"], ref.shape)] if pin and rin else []
            mc["thr"] = gen.resolve_threshold(mc["thr"], sc)
        cfg["matcher"] = mc
    if case.get("decision"):
        dm, dt = case["decision"]
        if isinstance(dt, dict):
            sc = [s for s, _, _ in M.candidates(pin, rin, dm, ref.shape)] if pin and rin else []
            dt = gen.resolve_threshold(dt, sc)
        cfg["decision"] = [dm, dt]
    return pred, ref, cfg


def check(case, stats):
    lib.run_primes(case.get("primes"))
    pred, ref, cfg = resolve(case)
    mets = cfg["imetrics"]
    exps, complete, info = PM.expected_results(pred, ref, cfg, metrics=mets)
    cands = info["cands"]
    nontrivial = info["n_pred"] > 0 and info["n_ref"] > 0 and len(cands) >= 1
    classes = [f"input={cfg['input']}", f"ndim={ref.ndim}"]
    if "rle" in case:
        classes.append("long_1d_runs" + (">65535" if ref.size > 65535 else ""))
    if case.get("primes"):
        classes.append("primed_with_other_objects")
    if len(mets) < 4:
        classes.append(f"instance_metrics={len(mets)}")
    if case.get("relabelled"):
        classes.append("wide_label_values")
    if cfg.get("force_matcher"):
        classes.append("matched_input_with_an_idle_matcher")
    elif cfg.get("matcher"):
        classes.append(f"mmetric={cfg['matcher']['metric']}")
        thr = cfg["matcher"]["thr"]
        if any(s == thr for s, _, _ in cands):
            classes.append("exact_matching_threshold")
        elig = [(r, p) for s, r, p in cands if M.beats(cfg["matcher"]["metric"], s, thr)]
        if any(a[0] == b[0] or a[1] == b[1] for a, b in itertools.combinations(elig, 2)):
            classes.append("competing_candidates")
    if info["ties"]:
        classes.append("ambiguous_ties")
    if len(exps) > 1:
        classes.append("several_outcomes")
    if cfg["input"] == "SEMANTIC":
        classes.append(f"backend={cfg['backend']}")
        if any(set(M.cc_partition(a, "scipy")) != set(M.cc_partition(a, "cc3d")) for a in (pred, ref)):
            classes.append("diagonal_or_multilabel_contact")
    if cfg.get("decision"):
        classes.append(f"decision={cfg['decision'][0]}")
        nodec = PM.expected_results(pred, ref, {**cfg, "decision": None}, metrics=mets)[0]
        if any(e["tp"] < n["tp"] for e, n in zip(exps, nodec)):
            classes.append("decision_rejects")
    if info["n_pred"] == 0 or info["n_ref"] == 0:
        classes.append("empty_side")
    stats.record(case, nontrivial, classes)

    ev = lib.evaluator(cfg)
    if case.get("warm"):
        probe = np.zeros((3, 3) if ref.ndim == 3 else (2, 3, 3), dtype=pred.dtype)
        probe[..., 0, 0] = 1
        probe[..., 1, 1] = 1
        H.lib_call(ev.evaluate, probe, probe.copy())
        stats.count("evaluator_used_before_on_another_dimensionality")
    pc, rc = pred.copy(), ref.copy()
    res = H.lib_call(ev.evaluate, pred, ref)["ungrouped"][0]
    lr = PM.lib_result(res, metrics=mets)
    msg = PM.decide(lr, exps, complete, metrics=mets)
    if msg:
        raise Violation(msg)
    if complete and len(exps) == 1:
        stats.count("uniquely_determined")
    if not (np.array_equal(pred, pc) and np.array_equal(ref, rc)):
        raise Violation("evaluate modified the caller's arrays")
