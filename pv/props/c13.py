"""C13 - global binary metrics depend only on the two foregrounds."""
from __future__ import annotations

import numpy as np
from hypothesis import strategies as st

from .. import gen, harness as H, lib, pipemodel as PM, refmodel as M
from ..harness import Violation
from .c08 import RES, handler_cfg

LEVEL = "exploration"
GM = ["DSC", "IOU", "ASSD", "RVD"]
RULE = (
    "Label-map pairs in 1-3-D (C / Fortran / negative-stride / transposed layout) incl. one or both sides empty x every non-empty subset of global metrics {DSC,IOU,ASSD,RVD} "
    "(+clDSC in 2-/3-D) x the default edge-case handler or random ones (4 scenario values x 5 results per metric) x input types x matchers "
    "(threshold, many-to-one, merge) x label values (small, around 2^8, multiples of 256 and 65536 in wide dtypes); plus a re-partitioned variant of the same two foregrounds (voxels relabelled "
    "arbitrarily, other matcher/threshold). Oracle: global_bin_<m> = model metric on the binarised coordinate sets "
    "(set arithmetic, brute-force ASSD; clDSC via skimage skeleton as in C06); identical between base and variant; with "
    "an empty prediction / reference / both the value is the handler's EMPTY_PRED / EMPTY_REF / NO_INSTANCES value. "
    "Non-trivial: both foregrounds non-empty and different, or an empty side under a handler whose scenario values "
    "differ for an inspected metric; distinct = distinct canonical case."
)
ASSUMPTIONS = [
    "Pool replaced by a serial order-preserving stand-in (justified by C15)",
    "the handler defines every requested metric",
    "RVD with an empty reference and clDSC with an empty skeleton are undefined and skipped",
]
BUDGET = {"quick": 300, "thorough": 4000}
BOUNDS = {"sides": "1-D<=16, 2-D<=8, 3-D<=5"}


@st.composite
def case_strategy(draw):
    pred, ref = draw(gen.pair(k=3, derived_weight=2))
    e = draw(st.sampled_from(["none", "none", "none", "pred", "ref", "both"]))
    if e in ("pred", "both"):
        pred[...] = 0
    if e in ("ref", "both"):
        ref[...] = 0
    it = draw(st.sampled_from(["SEMANTIC", "UNMATCHED_INSTANCE", "MATCHED_INSTANCE"]))
    gms = draw(st.lists(st.sampled_from(GM), min_size=1, max_size=4, unique=True))
    if ref.ndim >= 2 and draw(st.integers(0, 4)) == 0:
        gms.append("clDSC")
    shape = list(ref.shape)
    n = int(np.prod(shape))
    def mcfg():
        mm = draw(st.sampled_from(["IOU", "DSC"]))
        kind = draw(st.sampled_from(["naive", "naive_m2o", "merge"]))
        return {"kind": "merge" if kind == "merge" else "naive", "metric": mm, "thr": draw(st.sampled_from([0.0, 0.25, 0.5, 0.75, 1.0])), "m2o": kind == "naive_m2o"}
    hm = sorted(set(gms) | {"DSC"})
    dtype = draw(st.sampled_from(["uint8", "uint16"]))
    if draw(st.booleans()):  # label values must not matter: also multiples of 256 / 65536 in wide dtypes
        cls = ("small", "near8", "over8", "mult256", "mult256", "over16")
        pl = [int(x) for x in np.unique(pred) if x]
        rl = [int(x) for x in np.unique(ref) if x]
        if it == "MATCHED_INSTANCE":
            mp = draw(gen.injective_relabel(sorted(set(pl) | set(rl)), cls))
            pm, rm = {l: mp[l] for l in pl}, {l: mp[l] for l in rl}
        else:
            pm, rm = draw(gen.injective_relabel(pl, cls)), draw(gen.injective_relabel(rl, cls))
        pred, ref = gen.apply_relabel(pred, pm, "int64"), gen.apply_relabel(ref, rm, "int64")
        dtype = draw(st.sampled_from(gen.unsigned_at_least(max(list(pm.values()) + list(rm.values()) + [1]))))
    return {
        "pred": pred.tolist(), "ref": ref.tolist(), "dtype": dtype, "input": it,
        "backend": draw(st.sampled_from([None, "cc3d", "scipy"])) if it == "SEMANTIC" else None,
        "matcher": None if it == "MATCHED_INSTANCE" else mcfg(),
        "matcher2": None if it == "MATCHED_INSTANCE" else mcfg(),
        "gmetrics": gms,
        "layout": draw(st.sampled_from(["C", "C", "F", "neg", "T"])),
        "handler": draw(handler_cfg(hm)) if draw(st.integers(0, 3)) else None,
        "relabel_pred": draw(st.lists(st.sampled_from([1, 2, 3, 256, 512]), min_size=n, max_size=n)),
        "relabel_ref": draw(st.lists(st.sampled_from([1, 2, 3, 256, 512]), min_size=n, max_size=n)),
        "primes": draw(st.lists(st.sampled_from(sorted(lib.PRIMES)), min_size=0, max_size=2)) if draw(st.integers(0, 2)) == 0 else [],
    }


def searches(tier):
    return [("global", case_strategy(), BUDGET[tier])]


def _run(pred, ref, case, mkey):
    cfg = {"input": case["input"], "backend": case["backend"], "matcher": case[mkey], "imetrics": ["DSC"], "gmetrics": case["gmetrics"], "handler": case["handler"]}
    ev = lib.evaluator(cfg)
    res = H.lib_call(ev.evaluate, pred, ref)["ungrouped"][0]
    out = {}
    with H.quiet():
        for m in case["gmetrics"]:
            try:
                v = getattr(res, f"global_bin_{m.lower()}")
                out[m] = None if v is None else float(v)
            except Exception as e:
                out[m] = f"ERR:{type(e).__name__}"
    return out


def check(case, stats):
    lib.run_primes(case.get("primes"))
    pred = gen.with_layout(np.array(case["pred"]).astype(case["dtype"]), case.get("layout", "C"))
    ref = gen.with_layout(np.array(case["ref"]).astype(case["dtype"]), case.get("layout", "C"))
    shape = ref.shape
    P, R = M.foreground(pred), M.foreground(ref)
    hc = case["handler"]
    if hc is None:  # the library's default handler
        hc = {"std": lib.DEFAULT_HANDLER["std"], "metrics": {m: lib.DEFAULT_HANDLER["metrics"][m] for m in set(case["gmetrics"]) | {"DSC"}}}
    if P and R:
        scen = None
        nontrivial = P != R
    else:
        scen = "NO_INSTANCES" if not P and not R else "EMPTY_PRED" if not P else "EMPTY_REF"
        nontrivial = any(len(set(hc["metrics"][m])) > 1 for m in case["gmetrics"])
    stats.record(case, nontrivial, [f"scenario={scen}", f"input={case['input']}", f"n_global={len(case['gmetrics'])}", f"dtype={case['dtype']}"] + (["label_multiple_of_256"] if (pred.astype("int64") % 256 == 0)[pred != 0].any() or (ref.astype("int64") % 256 == 0)[ref != 0].any() else []) + [f"g={m}" for m in case["gmetrics"]])
    got = _run(pred, ref, case, "matcher")
    for m in case["gmetrics"]:
        g = got[m]
        if scen is not None:
            want = lib.EDGE_VALUES[hc["metrics"][m][lib.SCENARIOS.index(scen)]]
            if isinstance(g, str) or not H.same_value(g, want, 0):
                raise Violation(f"global_bin_{m.lower()}={g!r} with {scen}: handler configures {hc['metrics'][m][lib.SCENARIOS.index(scen)]} (scenario values {hc['metrics'][m]})")
            continue
        if m == "clDSC":
            from skimage.morphology import skeletonize

            rb, pb = ref != 0, pred != 0
            sr, sp = skeletonize(np.ascontiguousarray(rb)) != 0, skeletonize(np.ascontiguousarray(pb)) != 0
            if sr.sum() == 0 or sp.sum() == 0:
                continue
            tprec = int((sr & pb).sum()) / int(sr.sum())
            tsens = int((sp & rb).sum()) / int(sp.sum())
            if tprec + tsens == 0:
                continue
            want = 2 * tprec * tsens / (tprec + tsens)
        else:
            want = M.metric_value(m, P, R, shape)
        if isinstance(g, str) or not H.same_value(g, want, 1e-9):
            raise Violation(f"global_bin_{m.lower()}={g!r}, metric on the binarised foregrounds is {want!r}")
    # re-partitioned variant with the same foregrounds
    if scen is None:
        dt2 = case["dtype"] if np.iinfo(case["dtype"]).max >= 512 else "uint16"
        p2 = (np.array(case["relabel_pred"]).reshape(shape) * (pred != 0)).astype(dt2)
        r2 = (np.array(case["relabel_ref"]).reshape(shape) * (ref != 0)).astype(dt2)
        if case["input"] == "MATCHED_INSTANCE":
            pass  # any labelling is a valid matched pair
        got2 = _run(p2, r2, case, "matcher2")
        for m in case["gmetrics"]:
            a, b = got[m], got2[m]
            if isinstance(a, str) or isinstance(b, str):
                if a != b:
                    raise Violation(f"global_bin_{m.lower()} differs after re-partitioning the same foregrounds: {a!r} vs {b!r}")
            elif not H.same_value(a, b, 1e-12):
                raise Violation(f"global_bin_{m.lower()} differs after re-partitioning the same foregrounds: {a!r} vs {b!r}")
        stats.count("repartition_compared")
