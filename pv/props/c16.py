"""C16 - concurrent aggregation records every subject exactly once, intact."""
from __future__ import annotations

import csv
import math
import os
import pickle
import sys
import traceback
import shutil
import tempfile

import numpy as np
from hypothesis import strategies as st

from .. import harness as H, lib, sched
from ..harness import Violation

LEVEL = "exploration"
RULE = (
    "2-4 concurrent tasks on one shared Panoptica_Aggregator, each evaluate(subject), make_statistic() or a submission that raises (arrays of different shape, own name), subject names "
    "drawn from a pool of 3 (one of five name sets: plain, numeric-looking such as 001 / 1e3 / 07 / 7.0, missing-value tokens such as NA / null / nan / None, names that are prefixes of each other, names with quotes / comma / semicolon) so that collisions are frequent, 0-1 subjects recorded sequentially beforehand; tasks run as "
    "threads, as forked processes, or as forked processes that each work on their own pickled copy of an aggregator built by a process they were not forked from (long-lived pool workers; the copy is dropped and collected when the task is done). Every lock acquire/release, file open/close, remove and the middle of every row "
    "write is a scheduling point of a cooperative scheduler that runs exactly one task at a time; the interleaving is "
    "the generated schedule (free choice lists of <=200 integers, or priority orders with 0-4 preemptions placed at "
    "arbitrary decision indices), so every run is deterministic and replayable. In addition ALL interleavings of "
    "two tasks are enumerated depth-first over the scheduler's choice points for eleven configurations (same name twice, two "
    "names, evaluate + statistic on an empty and on a non-empty file, resumed file, two statistics; threads, and forks up "
    "to a leaf limit), and, in the thorough tier, all interleavings with at most two preemptions of three and four tasks. "
    "Lock-sharing probe: while the parent holds a module-level lock, a worker started through multiprocessing.Process / "
    "multiprocessing.Pool / panoptica.utils.NonDaemonicPool (default context) must not be able to take it. Oracle: TSV model - final file = header + "
    "exactly one complete row per distinct submitted name, each equal to the row of a sequential run; deadlock (live "
    "tasks, none runnable) = a call that blocks forever; every statistic built when the file held >=1 complete row "
    "succeeds and contains only submitted names with the sequential values. Non-trivial: >=1 switch away from a task "
    "that holds a lock or is in the middle of a row (measured by the scheduler); distinct = distinct canonical case."
)
ASSUMPTIONS = [
    "interleavings are sampled, not enumerated; granularity = lock operation / open / close / remove / half row",
    "Pool inside evaluate replaced by a serial stand-in (C15 justifies)",
    "a make_statistic on a file without any complete row may raise (outside the property)",
    "a task that does not reach its next scheduling point within 60 s makes the run inconclusive (exit 2), never a violation",
]
BUDGET = {"quick": 170, "thorough": 2600}
TIMEOUT = {"quick": 2400, "thorough": 8 * 3600}
SHRINK = {"quick": True, "thorough": True}
BOUNDS = {"tasks": "2-4", "schedule": "<=200 choices"}

INPUTS = [
    ([1, 1, 1, 0, 2, 2, 0, 0], [1, 1, 0, 0, 2, 2, 2, 0]),
    ([1, 1, 1, 1, 0, 0, 0, 0], [1, 1, 0, 0, 0, 0, 3, 3]),
    ([0, 0, 0, 0, 0, 0, 0, 0], [1, 1, 1, 0, 0, 0, 0, 0]),
    ([2, 2, 0, 1, 1, 1, 1, 0], [2, 2, 2, 1, 1, 0, 0, 0]),
]
NAME_SETS = [["alpha", " beta-2 ", "subject_name", "pre0"], ["001", "002", "1e3", "0"], ["7", "07", "7.0", "1_000"],
             ["NA", "null", "nan", "None"], ["s10", "s1", "s", "s100"], ['case "B" 02', "it's", "a,b;c", '"q"']]
NAMES = list(NAME_SETS[0])  # the set in use; chosen per case by use_names()


def use_names(idx):
    NAMES[:] = NAME_SETS[idx or 0]
CFG = {"input": "UNMATCHED_INSTANCE", "matcher": {"kind": "naive", "metric": "IOU", "thr": 0.5, "m2o": False}, "imetrics": ["DSC", "IOU"], "gmetrics": ["DSC"]}
CFG_PLAIN = CFG
CFG_GROUPED = {**CFG, "groups": [{"name": "first", "labels": [1], "kind": "plain"}, {"name": "rest", "labels": [2, 3], "kind": "plain"}]}


def use_cfg(grouped):
    """Evaluator configuration of the aggregator under test: group-less, or two class groups (two blocks of cells per row)."""
    global CFG
    CFG = CFG_GROUPED if grouped else CFG_PLAIN


BAD_NAME = "broken"
_EXPECTED = {}


def prepare(tier):
    sched.install()


@st.composite
def schedule(draw):
    if draw(st.booleans()):
        return {"kind": "choices", "choices": draw(st.lists(st.integers(0, 3), min_size=draw(st.sampled_from([0, 10, 30])), max_size=200))}
    return {"kind": "priority", "order": list(draw(st.permutations([0, 1, 2, 3]))), "switch_at": sorted(draw(st.sets(st.integers(0, 40), min_size=0, max_size=5)))}


@st.composite
def case_strategy(draw, mode=None):
    n = draw(st.integers(2, 4))
    tasks = []
    for _ in range(n):
        k = draw(st.integers(0, 9))
        if k <= 1:
            tasks.append({"op": "stat"})
        elif k == 2:
            tasks.append({"op": "evaluate_bad"})  # a submission that raises (arrays of different shape), under its own name
        else:
            tasks.append({"op": "evaluate", "subject": draw(st.integers(0, 2))})
    pre = draw(st.integers(0, 1))
    # continue_file=False is only meaningful on a fresh file (it skips rebuilding the claims from the output)
    return {"mode": mode or "threads", "tasks": tasks, "pre": pre, "schedule": draw(schedule()),
            "continue_file": True if pre else draw(st.booleans()), "subject_names": draw(st.sampled_from([0, 0, 1, 2, 3, 4, 5])),
            "grouped": draw(st.integers(0, 3)) == 0}


def searches(tier):
    n = BUDGET[tier]
    return [("threads", case_strategy("threads"), n), ("forks", case_strategy("forks"), max(10, n // 6)), ("forks_pickled", case_strategy("forks_pickled"), max(10, n // 6))]


E = lambda k: {"op": "evaluate", "subject": k}
S = {"op": "stat"}
DFS_CONFIGS = [
    # (name, mode, tasks, pre, leaf limit per tier)
    ("same_name_x2", "threads", [E(0), E(0)], 0),
    ("two_names", "threads", [E(0), E(1)], 0),
    ("evaluate+statistic", "threads", [E(0), S], 1),
    ("evaluate+statistic_empty_file", "threads", [E(0), S], 0),
    ("same_name_x2_resumed_file", "threads", [E(2), E(2)], 1),
    ("statistic_x2", "threads", [S, S], 1),
    ("raising_submission+evaluate", "threads", [{"op": "evaluate_bad"}, E(0)], 0),
    ("resubmission_of_recorded_subject+statistic", "threads", [E(3), S], 1),
    ("same_name_x2_forks", "forks", [E(0), E(0)], 0),
    ("evaluate+statistic_forks", "forks", [E(1), S], 1),
    ("same_name_x2_pickled_copies", "forks_pickled", [E(0), E(0)], 0),
]


def enumerations(tier):
    """Exhaustive exploration of *all* interleavings of two tasks (depth-first over the scheduler's
    choice points); one configuration per shard."""
    limit = 2100 if tier == "quick" else 120000
    def g():
        for name, mode, tasks, pre in DFS_CONFIGS:
            yield {"dfs": name, "mode": mode, "tasks": tasks, "pre": pre, "limit": limit if mode == "threads" else limit // 5 if mode == "forks" else limit // 10}
        if tier == "quick":
            return
        # three and four tasks: all interleavings with at most two preemptions (thorough tier)
        for name, tasks, pre in (("3_tasks_raising+same_name", [{"op": "evaluate_bad"}, E(0), E(0)], 0), ("3_tasks_same_name", [E(0), E(0), E(0)], 0), ("3_tasks_mixed", [E(0), E(1), S], 1),
                                 ("3_tasks_collision+stat", [E(1), E(1), S], 0), ("4_tasks_mixed", [E(0), E(0), E(2), S], 1)):
            yield {"dfs": name + "_preempt<=2", "mode": "threads", "tasks": tasks, "pre": pre, "limit": limit, "max_preempt": 2}
    def probes():
        for via in ("Process", "Pool", "NonDaemonicPool"):
            yield {"probe": "lock_sharing", "via": via}
    return [("all_interleavings_of_two_tasks_and_preemption_bounded_of_3_4", g()), ("lock_sharing_with_worker_processes", probes())]


def _probe_try_lock(name):
    """Runs in a worker process: can the module-level lock be taken right now?"""
    import sys

    if "panoptica" not in sys.modules:  # worker that did not inherit the parent's modules
        H.boot()
    import panoptica.panoptica_aggregator as A

    lk = getattr(A, name)
    lk = getattr(lk, "real", lk)
    got = lk.acquire(False)
    if got:
        lk.release()
    return got


def _probe_to_pipe(name, conn):
    conn.send(_probe_try_lock(name))
    conn.close()


def check_probe(case, stats):
    """Workers started the way the library's users start them (default multiprocessing context,
    multiprocessing.Pool, panoptica.utils.NonDaemonicPool) after importing panoptica must work on the
    parent's module-level locks: while the parent holds one, no worker may be able to take it."""
    import multiprocessing as mp

    ensure_fresh_module()
    import panoptica.panoptica_aggregator as A

    names = sorted(k for k, v in vars(A).items() if isinstance(v, sched.SchedLock))
    stats.record(case, bool(names), ["probe=lock_sharing", f"via={case['via']}"])
    for name in names:
        real = getattr(A, name).real
        if not real.acquire(False):
            raise H.HarnessError(f"{name} is held at the start of a case")
        try:
            via = case["via"]
            got = None
            if via == "Process":
                a, b = mp.Pipe(False)
                p = mp.Process(target=_probe_to_pipe, args=(name, b))
                p.start()
                if a.poll(120):
                    got = a.recv()
                p.join(10)
                if p.is_alive():
                    p.kill()
            else:
                if via == "Pool":
                    pool = mp.Pool(1)
                else:
                    from panoptica.utils import NonDaemonicPool

                    pool = H.lib_call(NonDaemonicPool, 1)
                try:
                    try:
                        got = pool.apply_async(_probe_try_lock, (name,)).get(120)
                    except mp.TimeoutError:
                        got = None
                finally:
                    pool.terminate()
                    pool.join()
        finally:
            real.release()
        if got is None:
            stats.count("probe_inconclusive_worker_did_not_answer")
        elif got:
            raise Violation(f"a worker process started through {via} (start method {mp.get_start_method()!r}) took the module-level lock {name!r} while the parent "
                            "process held it: workers do not share the aggregator's locks, so the duplicate check, the claim and the row append are unprotected between processes")
        else:
            stats.count("worker_blocked_by_parent_lock")


def check_dfs(meta, stats):
    stack = [[]]
    n = 0
    while stack and n < meta["limit"]:
        prefix = stack.pop()
        case = {"mode": meta["mode"], "tasks": meta["tasks"], "pre": meta["pre"], "schedule": {"kind": "prefix", "choices": prefix}}
        try:
            br = check(case, stats)
        except Violation as v:
            v.case = case
            raise
        n += 1
        bound = meta.get("max_preempt")
        used = sum(1 for c, (_, cur_in) in zip(prefix, br) if c != 0 and cur_in)
        for i in range(len(prefix), len(br)):
            nb, cur_in = br[i]
            if bound is not None and cur_in and used >= bound:
                continue  # a further preemption would exceed the bound (switches at blocking points are free)
            for alt in range(1, nb):
                stack.append(prefix + [0] * (i - len(prefix)) + [alt])
    stats.count(f"dfs_leaves:{meta['dfs']}", n)
    stats.count(f"dfs_{'complete' if not stack else 'truncated'}:{meta['dfs']}")


_FRESH = {}


def _module_state():
    import panoptica.panoptica_aggregator as A

    return {k: id(v.real) if isinstance(v, sched.SchedLock) else id(v) for k, v in vars(A).items() if not k.startswith("__")}


def ensure_fresh_module():
    if _FRESH.get("pid") != os.getpid() or _FRESH.get("state") != _module_state():
        H.fresh_aggregator_locks()
        _FRESH["pid"], _FRESH["state"] = os.getpid(), _module_state()


def arrays(k):
    p, r = INPUTS[k]
    return np.array(p, dtype=np.uint8), np.array(r, dtype=np.uint8)


def expected_rows(log_times=False):
    """Rows of a sequential run (one aggregator, one subject at a time), as strings."""
    key = tuple(NAMES) + (bool(log_times), CFG is CFG_GROUPED)
    if key in _EXPECTED:
        return _EXPECTED[key]
    exp = _EXPECTED[key] = {}
    if True:
        from panoptica import Panoptica_Aggregator

        d = tempfile.mkdtemp(prefix="pv_c16e_")
        try:
            out = os.path.join(d, "seq.tsv")
            agg = Panoptica_Aggregator(lib.evaluator(CFG), out, log_times=bool(log_times))
            for k, nm in enumerate(NAMES):
                agg.evaluate(*arrays(k), nm)
            with sched.REAL_OPEN(out, newline="") as f:
                rows = list(csv.reader(f, delimiter="\t"))
            exp["header"] = rows[0]
            for r in rows[1:]:
                exp[r[0]] = r
        finally:
            shutil.rmtree(d, ignore_errors=True)
    return exp


def parse_file(path):
    with sched.REAL_OPEN(path, newline="") as f:
        text = f.read()
    rows = list(csv.reader(text.splitlines(True), delimiter="\t"))
    return text, rows


def cell_value(s):
    if s == "":
        return None
    v = float(s)
    return v if math.isfinite(v) else None


def check(case, stats):
    if "dfs" in case:
        return check_dfs(case, stats)
    if "probe" in case:
        return check_probe(case, stats)
    from panoptica import Panoptica_Aggregator

    use_names(case.get("subject_names"))
    use_cfg(case.get("grouped"))
    with H.quiet():
        exp = expected_rows()
    header = exp["header"]
    # every case starts from the module state a fresh interpreter would have (no lock was ever used before): the
    # aggregator module is re-executed whenever its globals were rebound since the last fresh state (e.g. locks
    # created lazily). Re-executing unconditionally would pile up whatever the module registers at import time.
    ensure_fresh_module()
    from panoptica.panoptica_aggregator import Panoptica_Aggregator
    d = tempfile.mkdtemp(prefix="pv_c16_")
    snapshots = {}
    try:
        out = os.path.join(d, "results.tsv")
        submitted = set()
        if case["pre"]:
            submitted.add(NAMES[3])

        def construct():
            with H.quiet():
                a = Panoptica_Aggregator(lib.evaluator(CFG), out, continue_file=case.get("continue_file", True))
                if case["pre"]:
                    a.evaluate(*arrays(3), NAMES[3])
            return a

        if case["mode"] == "forks_pickled":
            # long-lived workers: the aggregator is built by a process the workers are not forked from, and
            # every task works on its own pickled copy, which is dropped when the task is done
            blob_path = os.path.join(d, "_agg.pkl")
            sys.stdout.flush()
            pid = os.fork()
            if pid == 0:
                code = 0
                try:
                    import atexit

                    atexit._clear()
                    with sched.REAL_OPEN(blob_path, "wb") as f:
                        pickle.dump(construct(), f)
                except BaseException:  # noqa
                    code = 1
                    try:
                        with sched.REAL_OPEN(blob_path + ".err", "w") as f:
                            f.write(traceback.format_exc()[-1500:])
                    except Exception:  # noqa
                        pass
                finally:
                    os._exit(code)
            _, status = os.waitpid(pid, 0)
            if status != 0:
                err = sched.REAL_OPEN(blob_path + ".err").read() if os.path.exists(blob_path + ".err") else f"status {status}"
                raise Violation(f"constructing and pickling the aggregator in a separate process failed: {err}")
            with sched.REAL_OPEN(blob_path, "rb") as f:
                blob = f.read()

            def with_agg(fn):
                def run():
                    import gc

                    a = pickle.loads(blob)
                    try:
                        return fn(a)
                    finally:
                        del a
                        gc.collect()
                return run
        else:
            agg = construct()

            def with_agg(fn):
                return lambda: fn(agg)

        def make(t):
            if t["op"] == "evaluate":
                k = t["subject"]
                p, r = arrays(k)
                return with_agg(lambda a: a.evaluate(p, r, NAMES[k]))
            if t["op"] == "evaluate_bad":
                p, r = arrays(0)
                return with_agg(lambda a: a.evaluate(p, r[:-1].copy(), BAD_NAME))

            def stat(a):
                s = a.make_statistic()
                return {sn: s.get_one_subject(sn) for sn in s.subjectnames}
            return with_agg(stat)

        fns = {i: make(t) for i, t in enumerate(case["tasks"])}
        for t in case["tasks"]:
            if t["op"] == "evaluate":
                submitted.add(NAMES[t["subject"]])

        def on_grant(tid, kind, detail):
            if kind == "open" and detail == "results.tsv:r":
                snapshots[tid] = parse_file(out)

        ctl = sched.Controller(case["schedule"], mode="forks" if case["mode"].startswith("forks") else "threads", on_grant=on_grant, scratch=d)
        try:
            results = ctl.run(fns)
        except sched.Deadlock as e:
            # the parked tasks keep their real locks for ever: give later cases fresh module-level locks
            H.fresh_aggregator_locks()
            _FRESH.clear()
            raise Violation(f"deadlock: {e}")
        except sched.Stuck as e:
            raise H.HarnessError(str(e))
        # no call may leave a lock behind: a later evaluate()/make_statistic() would block for ever
        import panoptica.panoptica_aggregator as A
        leaked = []
        for name, obj in list(vars(A).items()):
            if isinstance(obj, sched.SchedLock):
                if obj.real.acquire(False):
                    obj.real.release()
                else:
                    leaked.append(name)
        if leaked:
            H.fresh_aggregator_locks()
            _FRESH.clear()
            raise Violation(f"lock(s) {leaked} still held after every call returned: the next call on this aggregator blocks for ever")
        ncoll = len([t for t in case["tasks"] if t["op"] == "evaluate"]) - len({t["subject"] for t in case["tasks"] if t["op"] == "evaluate"})
        stats.record(case, ctl.preempt_in_window >= 1,
                     [f"mode={case['mode']}", f"tasks={len(case['tasks'])}", f"schedule={case['schedule']['kind']}",
                      "colliding_names" if ncoll else "distinct_names", "has_stat_task" if any(t["op"] == "stat" for t in case["tasks"]) else "evaluate_only"] + (["has_raising_submission"] if any(t["op"] == "evaluate_bad" for t in case["tasks"]) else []))
        stats.count("scheduling_points", len(ctl.trace))
        stats.count("context_switches", ctl.switches)
        stats.count("preemptions_in_critical_window", ctl.preempt_in_window)
        # every evaluate call returns normally
        for i, t in enumerate(case["tasks"]):
            kind, val = results[i]
            if t["op"] == "evaluate" and kind != "ok":
                raise Violation(f"task {i} evaluate({NAMES[t['subject']]!r}) raised {val}")
        # final file
        text, rows = parse_file(out)
        if not rows or rows[0] != header:
            raise Violation(f"output file does not start with the header: {rows[:1]}")
        if text and not text.endswith("\n"):
            raise Violation("output file ends with an incomplete row")
        seen = {}
        for r in rows[1:]:
            if len(r) != len(header):
                raise Violation(f"incomplete or torn row in the output file: {r}")
            if r[0] == BAD_NAME:
                continue  # what a raising submission leaves behind is not part of the statement
            if r[0] in seen:
                raise Violation(f"subject {r[0]!r} recorded more than once")
            seen[r[0]] = r
            if r[0] not in exp:
                raise Violation(f"row for unknown subject {r[0]!r}")
            if r != exp[r[0]]:
                raise Violation(f"row of subject {r[0]!r} differs from a sequential run: {r} vs {exp[r[0]]}")
        if set(seen) != submitted:
            raise Violation(f"subjects in the file {sorted(seen)} != distinct submitted subjects {sorted(submitted)}")
        # statistics built concurrently
        for i, t in enumerate(case["tasks"]):
            if t["op"] != "stat":
                continue
            kind, val = results[i]
            snap_text, snap_rows = snapshots.get(i, ("", []))
            complete = [r for r in snap_rows[1:] if len(r) == len(header)] if snap_text.endswith("\n") or not snap_text else [r for r in snap_rows[1:-1] if len(r) == len(header)]
            if kind != "ok":
                if complete:
                    raise Violation(f"make_statistic raised {val} although the file held {len(complete)} complete row(s)")
                stats.count("stat_on_empty_file_raised")
                continue
            for sn, groups in val.items():
                if sn == BAD_NAME:
                    continue
                if sn not in exp or sn not in submitted:
                    raise Violation(f"statistic contains subject {sn!r} which was not submitted")
                want = exp[sn]
                for g, ms in groups.items():
                    for m, v in ms.items():
                        col = header.index(f"{g}-{m}")
                        if not H.same_value(v, cell_value(want[col]), 0):
                            raise Violation(f"statistic value {g}-{m} of subject {sn!r} is {v!r}, a sequential run records {want[col]!r}")
            stats.count("statistics_checked")
        return getattr(ctl.schedule, "branching", None)
    finally:
        shutil.rmtree(d, ignore_errors=True)
