"""C12 - class groups are evaluated independently and completely."""
from __future__ import annotations

import numpy as np
from hypothesis import strategies as st

from .. import gen, harness as H, lib, meta, pipemodel as PM, refmodel as M
from ..harness import Violation

LEVEL = "exploration"
RULE = (
    "Label maps over the labels of 1-4 named groups (random partition of a subset of {1..6, 9, 10, 11, 17, 19, 33, 200}; kinds plain / merge / "
    "single-instance; names with '-', '_', space, '.', upper case) in 1-3-D and C / Fortran / negative-stride / transposed layout x input types (signed dtypes too for semantic "
    "input) x matcher {threshold, many-to-one, merge} x optional decision metric; plus a variant in which every voxel not "
    "belonging to one target group is rewritten arbitrarily, and a variant holding one label of no group - a positive one or, for signed dtypes, a negative one - (in the "
    "prediction or in the reference). Oracle: (a) differential - each group's result equals the result of a group-less "
    "evaluator of the same configuration on the arrays restricted by the harness's own masking (binarised for merge "
    "groups; a single-instance group under semantic/unmatched input evaluated as MATCHED_INSTANCE with decision "
    "threshold 0, as the evaluator documents); (b) non-interference - the target group's result is unchanged in the "
    "variant; (c) the undefined label makes evaluate raise. Non-trivial: >=2 groups with foreground on some side; "
    "distinct = distinct canonical case."
)
ASSUMPTIONS = [
    "Pool replaced by a serial order-preserving stand-in (justified by C15)",
    "the group-less path is the trusted side of the differential (decided by C01)",
    "labels of different groups are disjoint (overlapping group definitions are outside the property)",
]
BUDGET = {"quick": 320, "thorough": 2000}
BOUNDS = {"sides": "1-D<=16, 2-D<=8, 3-D<=5", "labels": "<= 201"}


def _map_to_labels(a, labels):
    """Map arbitrary small labels onto the defined label set (0 stays 0)."""
    out = np.zeros_like(a)
    if not labels:
        return out
    for v in np.unique(a):
        if v:
            out[a == v] = labels[(int(v) - 1) % len(labels)]
    return out


@st.composite
def case_strategy(draw):
    # a third of the cases with labels whose low byte is zero in the pool (256, 512: they vanish when cast to 8 bit)
    groups = draw(gen.group_defs(labels=(1, 2, 3, 256, 512, 5, 6, 9, 768, 11, 17, 19, 33, 200))) if draw(st.integers(0, 2)) == 0 else draw(gen.group_defs())
    defined = sorted(l for g in groups for l in g["labels"])
    it = draw(st.sampled_from(["SEMANTIC", "UNMATCHED_INSTANCE", "MATCHED_INSTANCE"]))
    pred, ref = draw(gen.pair(k=len(defined) + 1, derived_weight=3))
    lp = draw(st.permutations(defined))
    pred, ref = _map_to_labels(pred, list(lp)), _map_to_labels(ref, list(lp) if it == "MATCHED_INSTANCE" or draw(st.booleans()) else list(draw(st.permutations(defined))))
    if draw(st.integers(0, 2)) == 0:
        # one group's structure is missing altogether on one side
        g = groups[draw(st.integers(0, len(groups) - 1))]
        side = pred if draw(st.booleans()) else ref
        side[np.isin(side, g["labels"])] = 0
    other = draw(gen.free_map(list(ref.shape), k=4, density=2))
    other2 = draw(gen.free_map(list(ref.shape), k=4, density=2))
    mm = draw(st.sampled_from(["IOU", "DSC", "ASSD"]))
    kind = draw(st.sampled_from(["naive", "naive", "naive_m2o", "merge"]))
    dec = None
    if draw(st.booleans()):
        dm = draw(st.sampled_from(["IOU", "DSC", "ASSD"]))
        dec = [dm, draw(st.sampled_from([0.0, 0.3, 0.5, 1.0]))]
    mxl = max(defined + [201])  # wide enough for every defined and undefined label
    dtypes = [d for d in ["uint8", "uint16", "uint32"] + (["int8", "int16", "int32", "int64"] if it == "SEMANTIC" else []) if np.iinfo(d).max >= mxl]
    und = None
    free = [l for l in (1, 2, 3, 4, 5, 6, 7, 8, 9, 10, 12, 18, 34, 201) if l not in defined]
    dtype = draw(st.sampled_from(dtypes))
    if np.dtype(dtype).kind == "i":
        free = free + [-1, -3]  # a negative value is a non-zero label of no group, too
    if free and draw(st.booleans()):
        und = {"label": draw(st.sampled_from(free)), "side": draw(st.sampled_from(["pred", "ref"])), "pos": [draw(st.integers(0, s - 1)) for s in ref.shape]}
    # labels that belong to a group but cannot occur in the data (beyond the range of a narrow dtype): a legal
    # configuration; they must not select anything
    if np.iinfo(dtype).max <= 255 and draw(st.booleans()):
        cands = [g for g in groups if g["kind"] in ("plain", "merge")]
        if cands:
            g = cands[draw(st.integers(0, len(cands) - 1))]
            oth_labels = [l for h in groups if h is not g for l in h["labels"]] or [1]
            g["labels"] = sorted(set(g["labels"]) | {256 + draw(st.sampled_from(oth_labels)), 512 + draw(st.sampled_from(oth_labels))})
    return {
        "pred": pred.tolist(), "ref": ref.tolist(), "dtype": dtype, "input": it,
        "backend": draw(st.sampled_from([None, "cc3d", "scipy"])) if it == "SEMANTIC" else None,
        "matcher": None if it == "MATCHED_INSTANCE" else {"kind": "merge" if kind == "merge" else "naive", "metric": mm, "thr": draw(st.sampled_from([0.0, 0.25, 0.5, 0.75])), "m2o": kind == "naive_m2o"},
        "decision": dec, "groups": groups, "target": draw(st.integers(0, len(groups) - 1)),
        "other_pred": other.tolist(), "other_ref": other2.tolist(), "undefined": und,
        "layout": draw(st.sampled_from(["C", "C", "F", "neg", "T"])),
        "primes": draw(st.lists(st.sampled_from(sorted(lib.PRIMES)), min_size=0, max_size=2)) if draw(st.integers(0, 2)) == 0 else [],
    }


@st.composite
def many_labels_case(draw):
    """A group of 24 labels spread over a wide range next to a small group (numpy picks another np.isin algorithm for
    many, widely spread test values), on small maps holding labels of both groups."""
    big = list(range(1, 13)) + [draw(st.sampled_from([2001, 40001])) + i for i in range(12)]
    if draw(st.booleans()):
        big = list(draw(st.permutations(big)))
    small = [20, 21]
    shape = draw(gen.shapes((1, 2), max1=16, max2=8))
    pool = big + small
    pred = np.array(draw(st.lists(st.sampled_from([0, 0] + pool), min_size=int(np.prod(shape)), max_size=int(np.prod(shape))))).reshape(shape)
    ref = np.where(np.array(draw(st.lists(st.booleans(), min_size=pred.size, max_size=pred.size))).reshape(shape), pred, np.roll(pred, 1, axis=-1))
    it = draw(st.sampled_from(["SEMANTIC", "UNMATCHED_INSTANCE", "MATCHED_INSTANCE"]))
    groups = [{"name": "big", "labels": big, "kind": draw(st.sampled_from(["plain", "merge"]))}, {"name": "small", "labels": small, "kind": "plain"}]
    return {"pred": pred.tolist(), "ref": ref.tolist(), "dtype": draw(st.sampled_from(["uint16", "uint32"])), "input": it,
            "backend": None, "matcher": None if it == "MATCHED_INSTANCE" else {"kind": "naive", "metric": "IOU", "thr": 0.5, "m2o": False},
            "decision": None, "groups": groups, "target": draw(st.integers(0, 1)), "other_pred": np.zeros(shape, dtype=int).tolist(), "other_ref": np.zeros(shape, dtype=int).tolist(),
            "undefined": None, "layout": "C", "primes": []}


def searches(tier):
    return [("groups", case_strategy(), BUDGET[tier]), ("many_labels", many_labels_case(), max(20, BUDGET[tier] // 8))]


def restrict(a, g):
    out = np.where(np.isin(a.astype(np.int64), g["labels"]), a, 0).astype(a.dtype)
    if g["kind"] in ("merge", "merge_single"):
        out = (out != 0).astype(a.dtype)
    return out


def base_cfg(case):
    return {"input": case["input"], "backend": case["backend"], "matcher": case["matcher"], "decision": case["decision"],
            "imetrics": PM.METRICS, "gmetrics": ["DSC"]}


def reference_result(case, g, pred, ref):
    cfg = base_cfg(case)
    p, r = restrict(pred, g), restrict(ref, g)
    if g["kind"] in ("single", "merge_single") and case["input"] != "MATCHED_INSTANCE":
        cfg = {**cfg, "input": "MATCHED_INSTANCE", "matcher": None, "backend": None}
        if cfg["decision"]:
            cfg["decision"] = [cfg["decision"][0], 0.0]
        if p.dtype.kind != "u":
            p, r = p.astype("uint64"), r.astype("uint64")
    ev = lib.evaluator(cfg)
    return meta.observe(H.lib_call(ev.evaluate, p, r)["ungrouped"][0])


def check(case, stats):
    lib.run_primes(case.get("primes"))
    pred = gen.with_layout(np.array(case["pred"]).astype(case["dtype"]), case.get("layout", "C"))
    ref = gen.with_layout(np.array(case["ref"]).astype(case["dtype"]), case.get("layout", "C"))
    groups = case["groups"]
    active = sum(1 for g in groups if np.isin(pred.astype(np.int64), g["labels"]).any() or np.isin(ref.astype(np.int64), g["labels"]).any())
    kinds = sorted({g["kind"] for g in groups})
    stats.record(case, len(groups) >= 2 and active >= 2, [f"input={case['input']}", f"groups={len(groups)}", f"dtype={case['dtype']}"] + [f"kind={k}" for k in kinds])
    cfg = {**base_cfg(case), "groups": groups}
    ev = lib.evaluator(cfg)
    pc, rc = pred.copy(), ref.copy()
    out = H.lib_call(ev.evaluate, pred, ref)
    if not (np.array_equal(pred, pc) and np.array_equal(ref, rc)):
        raise Violation("evaluate with groups modified the caller's arrays")
    want_keys = sorted(g["name"].lower() for g in groups)
    if sorted(out.keys()) != want_keys:
        raise Violation(f"result groups {sorted(out.keys())} != defined groups {want_keys}")
    obs = {}
    for g in groups:
        got = meta.observe(out[g["name"].lower()][0])
        obs[g["name"]] = got
        want = reference_result(case, g, pred, ref)
        if g["kind"] in ("single", "merge_single") and case["input"] != "MATCHED_INSTANCE":
            # "treated as one already-matched instance": stated directly, not through another library call. With a
            # decision metric the evaluator documents threshold 0 for such a group: every overlap score meets it, a
            # distance only when it is exactly 0.
            gp, gr = restrict(pred, g) != 0, restrict(ref, g) != 0
            if gp.any() and gr.any():
                dec = case.get("decision")
                exp_tp = 1 if not dec or dec[0] in ("IOU", "DSC") or np.array_equal(gp, gr) else 0
                d_ = got["dict"]
                if (d_.get("tp"), d_.get("fp"), d_.get("fn")) != (exp_tp, 1 - exp_tp, 1 - exp_tp):
                    raise Violation(f"single-instance group {g['name']!r} present on both sides (decision {dec}): tp/fp/fn = {d_.get('tp')}/{d_.get('fp')}/{d_.get('fn')}, one already-matched instance gives {exp_tp}/{1 - exp_tp}/{1 - exp_tp}")
                stats.count("single_instance_groups_checked_directly")
        msg = meta.diff(want, got)
        if msg:
            raise Violation(f"group {g['name']!r} ({g['kind']}, labels {g['labels']}): grouped result differs from the group-less evaluation of the restricted arrays: {msg}")
    # non-interference
    t = groups[case["target"]]
    others = sorted(l for g in groups if g is not t for l in g["labels"] if l <= np.iinfo(case["dtype"]).max)
    if others:
        op = _map_to_labels(np.array(case["other_pred"]), others).astype(case["dtype"])
        orf = _map_to_labels(np.array(case["other_ref"]), others).astype(case["dtype"])
        pv = np.where(np.isin(pred.astype(np.int64), t["labels"]), pred, op).astype(case["dtype"])
        rv = np.where(np.isin(ref.astype(np.int64), t["labels"]), ref, orf).astype(case["dtype"])
        out2 = H.lib_call(lib.evaluator(cfg).evaluate, pv, rv)
        msg = meta.diff(obs[t["name"]], meta.observe(out2[t["name"].lower()][0]))
        if msg:
            raise Violation(f"group {t['name']!r} result changed when only voxels of other groups were changed: {msg}")
        stats.count("non_interference_compared")
        # the caller refills its buffers and asks the same evaluator again: same array objects, new contents
        pred[...] = pv
        ref[...] = rv
        out3 = H.lib_call(ev.evaluate, pred, ref)
        for g in groups:
            msg = meta.diff(meta.observe(out2[g["name"].lower()][0]), meta.observe(out3[g["name"].lower()][0]))
            if msg:
                raise Violation(f"group {g['name']!r}: the evaluator that saw these array objects before (with other contents) reports something else than a fresh evaluator on fresh arrays: {msg}")
        pred[...] = pc
        ref[...] = rc
        stats.count("refilled_buffers_compared")
    # undefined label
    und = case.get("undefined")
    if und:
        pu, ru = pred.copy(), ref.copy()
        (pu if und["side"] == "pred" else ru)[tuple(und["pos"])] = und["label"]
        try:
            with H.quiet():
                lib.evaluator(cfg).evaluate(pu, ru)
        except Exception:
            stats.count(f"undefined_label_rejected:{und['side']}")
        else:
            raise Violation(f"label {und['label']} belongs to no group but evaluate accepted it in the {und['side']} array")
