"""C04 - relabelling after matching preserves both segmentations."""
from __future__ import annotations

import numpy as np
from hypothesis import strategies as st

from .. import gen, harness as H, lib, refmodel as M
from ..harness import Violation

LEVEL = "exploration"
RULE = (
    "(a) 'direct': unmatched instance-map pairs (1-3-D, derived predictions) whose labels are renamed injectively into "
    "the classes {1..5, 250..255, 256..300, 65530..65535, 65536..70000} in the narrowest or a wider unsigned dtype and in C / Fortran / negative-stride / transposed layout, fed "
    "to match_instances of the threshold matcher (with/without many-to-one) and the merge matcher; (b) 'many': 1-D maps "
    "with 1-300 single-voxel reference instances and 0-300 matched / 0-300 unmatched predictions through the semantic "
    "pipeline (the approximator picks the narrowest dtype first), inspected at IntermediateStepsData. Oracle: reference "
    "unchanged value-for-value; prediction foreground unchanged; input label -> output label is a function; two inputs "
    "share an output label only if it is a reference label and the matcher may merge; labels equal to a reference label "
    "belong to overlapping pairs meeting the threshold; all other output labels pairwise distinct and not reference "
    "labels. Non-trivial: >=1 unmatched prediction; class 'boundary': max reference label + number of unmatched "
    "predictions exceeds the maximum of the dtype entering the matcher. distinct = distinct canonical case."
)
ASSUMPTIONS = [
    "Pool replaced by a serial order-preserving stand-in (justified by C15)",
    "both sides non-empty for direct matcher calls",
    "the output dtype may be wider than the input dtype (values are compared)",
]
BUDGET = {"quick": 160, "thorough": 3000}
BOUNDS = {"labels": "< 70001 (near-2^24 labels only in C09)", "instances": "<= 300 per side"}


@st.composite
def direct_case(draw):
    pred, ref = draw(gen.pair(k=4, derived_weight=4))
    boundary_bias = draw(st.booleans())
    for a in (pred, ref):  # both sides non-empty by construction
        if not a.any():
            a[tuple(draw(st.integers(0, s - 1)) for s in a.shape)] = 1
    if boundary_bias:  # a few stray single-voxel predictions that will stay unmatched
        free = np.argwhere((pred == 0) & (ref == 0))
        nxt = int(pred.max()) + 1
        for _ in range(draw(st.integers(1, 4))):
            if len(free) == 0:
                break
            i = draw(st.integers(0, len(free) - 1))
            pred[tuple(free[i])] = nxt
            nxt += 1
            free = np.delete(free, i, axis=0)
    pred, ref = gen.compact(pred), gen.compact(ref)
    if boundary_bias:
        cls = draw(st.sampled_from([("near8",), ("near16",), ("near8", "small"), ("near16", "small")]))
    else:
        cls = ("small", "near8", "over8", "near16", "over16")
    pl = [int(x) for x in np.unique(pred) if x]
    rl = [int(x) for x in np.unique(ref) if x]
    pm = draw(gen.injective_relabel(pl, cls))
    rm = draw(gen.injective_relabel(rl, cls))
    if boundary_bias and rl:  # push the largest reference label to the top of its dtype
        top = 255 if max(rm.values()) <= 255 else 65535
        tgt = top - draw(st.integers(0, 2))
        if tgt not in rm.values():
            k = max(rm, key=lambda q: rm[q])
            rm[k] = tgt
    mx = max(list(pm.values()) + list(rm.values()) + [1])
    dts = gen.unsigned_at_least(mx)
    dtype = dts[0] if boundary_bias or draw(st.booleans()) else draw(st.sampled_from(dts))
    kind = draw(st.sampled_from(["naive", "naive", "naive_m2o", "merge"]))
    metric = draw(st.sampled_from(["IOU", "IOU", "DSC", "ASSD"]))
    return {
        "kind": "direct",
        "pred": gen.apply_relabel(pred, pm, "int64").tolist(),
        "ref": gen.apply_relabel(ref, rm, "int64").tolist(),
        "dtype": dtype,
        "layout": draw(st.sampled_from(["C", "C", "F", "neg", "T"])),
        "matcher": {"kind": "merge" if kind == "merge" else "naive", "metric": metric, "thr": draw(gen.threshold(metric)), "m2o": kind == "naive_m2o"},
    }


@st.composite
def many_case(draw):
    n_ref = draw(st.sampled_from([1, 5, 100, 200, 250, 254, 255, 256, 300]))
    n_match = draw(st.integers(0, n_ref))
    n_un = draw(st.sampled_from([0, 1, 2, 10, 60, 100, 300]))
    kind = draw(st.sampled_from(["naive", "naive_m2o", "merge"]))
    return {
        "kind": "many",
        "n_ref": n_ref,
        "n_match": n_match,
        "n_unmatched": n_un,
        "sem_label": draw(st.sampled_from([1, 3, 200])),
        "dtype": draw(st.sampled_from(["uint8", "uint16", "int16", "int64"])),
        "backend": draw(st.sampled_from([None, "cc3d", "scipy"])),
        "matcher": {"kind": "merge" if kind == "merge" else "naive", "metric": "IOU", "thr": 0.5, "m2o": kind == "naive_m2o"},
    }


def prepare(tier):
    lib.install_assd_snap()


def searches(tier):
    n = BUDGET[tier]
    return [("direct", direct_case(), n * 3 // 4), ("many", many_case(), max(6, n // 4))]


def oracle(in_pred, in_ref, out_pred, out_ref, mcfg, thr, stats, case, classes):
    shape = in_ref.shape
    if out_ref.shape != shape or out_pred.shape != shape:
        raise Violation("matching changed the array shape")
    if not np.array_equal(out_ref.astype(np.uint64), in_ref.astype(np.uint64)):
        raise Violation("matching changed the reference map")
    if not np.array_equal(out_pred != 0, in_pred != 0):
        lost = int(((in_pred != 0) & (out_pred == 0)).sum())
        raise Violation(f"matching changed the prediction foreground ({lost} voxels lost, {int(((in_pred == 0) & (out_pred != 0)).sum())} gained)")
    pin, rin = M.instances(in_pred), M.instances(in_ref)
    amap = {}
    for p, vox in pin.items():
        labs = {int(out_pred[c]) for c in vox}
        if len(labs) != 1:
            raise Violation(f"prediction instance {p} was split over output labels {sorted(labs)}")
        amap[p] = labs.pop()
    may_merge = mcfg["kind"] == "merge" or mcfg.get("m2o")
    by_out = {}
    for p, o in amap.items():
        by_out.setdefault(o, []).append(p)
    for o, ps in by_out.items():
        if o in rin:
            if len(ps) > 1 and not may_merge:
                raise Violation(f"predictions {sorted(ps)} both received reference label {o} under a one-to-one matcher")
            for p in ps:
                if not (pin[p] & rin[o]):
                    raise Violation(f"prediction {p} received reference label {o} without overlapping that reference")
                if mcfg["kind"] == "naive":
                    s = M.metric_value(mcfg["metric"], pin[p], rin[o], shape)
                    eps = M.tie_eps(mcfg["metric"])
                    if not M.beats(mcfg["metric"], s, thr) and not (eps and abs(s - thr) <= eps):
                        raise Violation(f"prediction {p} received reference label {o} although its score {s!r} does not meet the threshold {thr!r}")
        else:
            if len(ps) > 1:
                raise Violation(f"unmatched predictions {sorted(ps)} received the same label {o}")
    n_unmatched = sum(1 for o in by_out if o not in rin)
    return n_unmatched, pin, rin


def check(case, stats):
    if case["kind"] == "many":
        return check_many(case, stats)
    from panoptica.utils.processing_pair import UnmatchedInstancePair

    pred = gen.with_layout(np.array(case["pred"]).astype(case["dtype"]), case.get("layout", "C"))
    ref = gen.with_layout(np.array(case["ref"]).astype(case["dtype"]), case.get("layout", "C"))
    if not pred.any() or not ref.any():
        stats.count("skipped:empty_side")
        return
    mcfg = dict(case["matcher"])
    pin, rin = M.instances(pred), M.instances(ref)
    cands = M.candidates(pin, rin, mcfg["metric"], ref.shape)
    thr = gen.resolve_threshold(mcfg["thr"], [s for s, _, _ in cands]) if isinstance(mcfg["thr"], dict) else mcfg["thr"]
    mcfg["thr"] = thr
    mt = lib.matcher(mcfg)
    out = H.lib_call(lambda: mt.match_instances(UnmatchedInstancePair(pred.copy(order="K"), ref.copy(order="K"))))
    classes = [f"dtype={case['dtype']}", f"matcher={mcfg['kind']}{'+m2o' if mcfg.get('m2o') else ''}", "direct"]
    try:
        n_un, _, _ = oracle(pred, ref, np.asarray(out.prediction_arr), np.asarray(out.reference_arr), mcfg, thr, stats, case, classes)
    finally:
        pass
    boundary = max(rin) + n_un > np.iinfo(pred.dtype).max
    if boundary:
        classes.append("boundary")
    stats.record(case, n_un >= 1, classes)


def build_many(case):
    n_ref, n_match, n_un = case["n_ref"], case["n_match"], case["n_unmatched"]
    L = 4 * max(n_ref, n_un) + 4
    ref = np.zeros(L, dtype=np.int64)
    pred = np.zeros(L, dtype=np.int64)
    ref[0:4 * n_ref:4] = case["sem_label"]
    pred[0:4 * n_match:4] = case["sem_label"]
    pred[2:4 * n_un + 2:4] = case["sem_label"]
    return pred.astype(case["dtype"]), ref.astype(case["dtype"])


def check_many(case, stats):
    from panoptica import InputType

    pred, ref = build_many(case)
    ev = lib.evaluator({"input": "SEMANTIC", "backend": case["backend"], "matcher": case["matcher"], "imetrics": ["DSC"], "gmetrics": []})
    res, isd = H.lib_call(ev.evaluate, pred, ref)["ungrouped"]
    classes = ["many", f"matcher={case['matcher']['kind']}{'+m2o' if case['matcher'].get('m2o') else ''}"]
    if case["n_ref"] == 0 or (case["n_match"] + case["n_unmatched"]) == 0:
        stats.record(case, False, classes + ["empty_side"])
        return
    up = np.asarray(isd.prediction_arr(InputType.UNMATCHED_INSTANCE))
    ur = np.asarray(isd.reference_arr(InputType.UNMATCHED_INSTANCE))
    mp = np.asarray(isd.prediction_arr(InputType.MATCHED_INSTANCE))
    mr = np.asarray(isd.reference_arr(InputType.MATCHED_INSTANCE))
    n_un, pin, rin = oracle(up, ur, mp, mr, case["matcher"], case["matcher"]["thr"], stats, case, classes)
    if len(rin) != case["n_ref"] or len(pin) != case["n_match"] + case["n_unmatched"]:
        raise Violation(f"approximation produced {len(rin)}/{len(pin)} instances, expected {case['n_ref']}/{case['n_match'] + case['n_unmatched']}")
    if n_un != case["n_unmatched"]:
        raise Violation(f"{n_un} predictions kept a non-reference label, expected {case['n_unmatched']} unmatched predictions")
    if max(rin) + n_un > np.iinfo(up.dtype).max:
        classes.append("boundary")
    stats.record(case, n_un >= 1, classes)
    # the final counts must reflect the preserved partition
    if int(res.tp) != case["n_match"] or int(res.fp) != case["n_unmatched"] or int(res.fn) != case["n_ref"] - case["n_match"]:
        raise Violation(f"tp/fp/fn = {res.tp}/{res.fp}/{res.fn}, expected {case['n_match']}/{case['n_unmatched']}/{case['n_ref'] - case['n_match']}")
