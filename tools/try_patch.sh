#!/bin/sh
# usage: tools/try_patch.sh <patch.diff> <tier> <PROP> [PROP...]
# Applies a patch to a scratch copy of /repo's working tree (outside /repo and /verif), runs the
# given checks against it (VERIF_REPO), prints one line per check, removes the copy.
patch="$1"; tier="$2"; shift 2
d=$(mktemp -d /tmp/pvseed_XXXXXX)
cp -r /repo/panoptica "$d/panoptica"
find "$d" -name __pycache__ -type d -exec rm -rf {} + 2>/dev/null
( cd "$d" && patch -p1 -s < "$patch" ) || { echo "PATCH-FAILED $patch"; rm -rf "$d"; exit 2; }
rc=0
for p in "$@"; do
  out=$(VERIF_REPO="$d" VERIF_EVIDENCE_DIR="$d/evidence" /verif/bin/check "$p" "$tier" 2>&1)
  code=$?
  msg=$(echo "$out" | grep -B1 '^VIOLATION' | head -1 | cut -c1-200)
  echo "$p exit=$code $msg"
  [ $code -eq 1 ] || rc=1
done
rm -rf "$d"
exit $rc
