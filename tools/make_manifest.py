#!/usr/bin/env python3
"""Regenerate MANIFEST.json from the table below (kept valid at all times)."""
import json, os
HERE = os.path.dirname(os.path.dirname(os.path.abspath(__file__)))
props = {json.loads(l)["id"]: json.loads(l) for l in open(os.path.join(HERE, "properties.jsonl"))}

# id -> (category, technique, level text, level note)
CHECKS = {}
NOT_APPLICABLE = {}

def add(pid, technique, text, note, category="exploration"):
    CHECKS[pid] = dict(category=category, technique=technique, text=text, note=note)

exec(open(os.path.join(HERE, "tools", "manifest_table.py")).read())

checks = []
for pid in sorted(CHECKS):
    c = CHECKS[pid]
    checks.append({
        "property_id": pid,
        "quick_cmd": f"bin/check {pid} quick",
        "thorough_cmd": f"bin/check {pid} thorough",
        "evidence_file": f"evidence/{pid}.json",
        "replay_cmd_template": f"bin/check {pid} --replay {{path}}",
        "engine": "pv",
        "level_claimed": {"category": c["category"], "text": c["text"], "design_ref": f"DESIGN.md section 7, {pid}"},
        "level_note": c["note"],
        "technique": c["technique"],
    })
for pid in sorted(props):
    if pid not in CHECKS and pid not in NOT_APPLICABLE:
        NOT_APPLICABLE[pid] = "check not yet built in this revision of /verif (work in progress; see DESIGN.md section 7)"
manifest = {
    "version": 1,
    "setup_cmd": "bin/setup",
    "hooks": {
        "guard": "PANOPTICA_VERIF",
        "enable": "no repository hooks are needed: checks import panoptica from /repo's working tree (or $VERIF_REPO) and wrap module attributes from outside",
        "baseline_off_cmd": "cd /repo && /venv/bin/python -m pytest -ra -q -p no:cacheprovider --timeout=900 --continue-on-collection-errors",
        "source_commits": [],
        "add_only": True,
    },
    "engines": [{
        "name": "pv",
        "path": "pv/",
        "serves_properties": sorted(CHECKS),
        "kind_free_text": "property-based testing: Hypothesis generators + exhaustive small-domain enumeration against an independent reference model, metamorphic relations, stateful machines, controlled schedules and crash-point enumeration; 16 forked shards seeded from VERIF_SEED",
    }],
    "checks": checks,
    "notes": "bin/check <ID> quick|thorough; bin/check <ID> --replay <file>. exit 0 held / 1 VIOLATION / 2 harness error (inconclusive). known_findings.json lists fixed and known defects.",
    "not_applicable": [{"property_id": k, "reason": v} for k, v in sorted(NOT_APPLICABLE.items())],
}
json.dump(manifest, open(os.path.join(HERE, "MANIFEST.json"), "w"), indent=1)
print("MANIFEST.json:", len(checks), "checks,", len(NOT_APPLICABLE), "not_applicable")
