# one add(...) per claimed property; executed by make_manifest.py
add("C06", "property-based testing (Hypothesis) against a set-arithmetic reference model + algebraic relations",
    "Generated-input search: thousands of label-array pairs over dimensionalities, dtypes, label selections and large volumes are compared with the set-theoretic definitions computed independently; relations Dice=2IoU/(1+IoU), symmetry, range and the value-1 criterion are asserted on every case. Exploration is the right level: the claim is a for-all over arrays, the oracle is exact, and inputs are cheap.",
    "Bounded by generated sizes (see evidence bounds). clDice oracle trusts skimage's skeletonisation; numpy integer/float division is assumed correctly rounded.")
