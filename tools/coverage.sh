#!/bin/sh
# Development aid: which library lines do the quick checks execute?  usage: tools/coverage.sh [PROP...]
# Writes /verif/COVERAGE.md (lines of panoptica/ never executed by the listed checks).
out=$(mktemp -d /tmp/pvcover_XXXXXX)
props="$@"; [ -z "$props" ] && props="C01 C02 C03 C04 C05 C06 C07 C08 C09 C10 C11 C12 C13 C14 C15 C16 C17 C18 C19 C20"
for p in $props; do PV_COVER=$out VERIF_EVIDENCE_DIR=$out/evidence /verif/bin/check $p quick | tail -1; done
/venv/bin/python - "$out" <<'PY'
import ast, glob, json, os, sys
hit = set()
for f in glob.glob(os.path.join(sys.argv[1], "*.json")):
    try:
        hit |= {tuple(x) for x in json.load(open(f))}
    except ValueError:
        pass
lines = ["# Library lines never executed by the quick checks (tools/coverage.sh)\n"]
tot = cov = 0
for path in sorted(glob.glob("/repo/panoptica/**/*.py", recursive=True)):
    rel = path[len("/repo/"):]
    tree = ast.parse(open(path).read())
    stmts = set()
    for node in ast.walk(tree):
        if isinstance(node, ast.stmt) and not isinstance(node, (ast.FunctionDef, ast.ClassDef, ast.AsyncFunctionDef)):
            if isinstance(node, ast.Expr) and isinstance(node.value, ast.Constant) and isinstance(node.value.value, str):
                continue  # docstring
            stmts.add(node.lineno)
    miss = sorted(l for l in stmts if (rel, l) not in hit)
    tot += len(stmts); cov += len(stmts) - len(miss)
    if miss:
        src = open(path).read().splitlines()
        lines.append(f"\n## {rel}: {len(stmts) - len(miss)}/{len(stmts)} statements executed\n")
        for l in miss:
            lines.append(f"    {l:4d}: {src[l - 1].strip()[:110]}")
lines.insert(1, f"{cov}/{tot} statements executed.\n")
open("/verif/COVERAGE.md", "w").write("\n".join(lines) + "\n")
print(f"{cov}/{tot} statements executed; see /verif/COVERAGE.md")
PY
rm -rf "$out"
