#!/bin/sh
# run the repository's baseline suite (80 stable tests; 3 example-script tests always fail offline)
cd /repo && PANOPTICA_CITATION_REMINDER=false /venv/bin/python -m pytest -q -p no:cacheprovider --timeout=900 --continue-on-collection-errors 2>&1 | tail -6
