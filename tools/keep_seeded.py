#!/usr/bin/env python3
"""Confirm a sub-agent's seeded change and keep it under /verif/seeded/<name>/.

usage: tools/keep_seeded.py <worktree> <name> <PROP> [<PROP>...] [--tier quick]

Confirms, in a scratch copy of /repo's working tree (outside /repo and /verif):
  1. demo.py exits 0 on the unchanged code,
  2. the patch applies, the repository's unit tests still pass (80 passed),
  3. demo.py exits non-zero on the changed code,
then runs the listed checks against the changed copy and records everything in meta.json.
"""
import json
import os
import re
import shutil
import subprocess
import sys
import tempfile

VERIF = os.path.dirname(os.path.dirname(os.path.abspath(__file__)))


def sh(cmd, cwd=None, env=None, timeout=3600):
    r = subprocess.run(cmd, cwd=cwd, env=env, capture_output=True, text=True, timeout=timeout)
    return r.returncode, r.stdout + r.stderr


def main():
    args = [a for a in sys.argv[1:] if not a.startswith("--")]
    tier = "quick"
    if "--tier" in sys.argv:
        tier = sys.argv[sys.argv.index("--tier") + 1]
        args = [a for a in args if a != tier]
    if "--src" in sys.argv:
        args = [a for a in args if a != sys.argv[sys.argv.index("--src") + 1]]
    wt, name, props = args[0], args[1], args[2:]
    src = os.path.join(wt, "_seeded")
    if "--src" in sys.argv:  # several changes per worktree: <wt>/_seeded/<sub>/
        src = os.path.join(wt, "_seeded", sys.argv[sys.argv.index("--src") + 1])
    d = tempfile.mkdtemp(prefix="pvkeep_", dir="/tmp")
    meta = {"name": name, "properties": props, "source": "independent sub-agent given only the property text and a scratch worktree"}
    try:
        shutil.copytree("/repo/panoptica", os.path.join(d, "panoptica"), ignore=shutil.ignore_patterns("__pycache__"))
        shutil.copytree("/repo/unit_tests", os.path.join(d, "unit_tests"), ignore=shutil.ignore_patterns("__pycache__"))
        shutil.copy(os.path.join(src, "demo.py"), os.path.join(d, "demo.py"))
        helpers = []
        for hd in {src, os.path.join(wt, "_seeded")}:  # helper modules some demos import
            for f in os.listdir(hd):
                if f.endswith(".py") and f != "demo.py" and os.path.isfile(os.path.join(hd, f)):
                    shutil.copy(os.path.join(hd, f), os.path.join(d, f))
                    helpers.append(os.path.join(hd, f))
        env = {**os.environ, "PYTHONPATH": d, "PANOPTICA_CITATION_REMINDER": "false"}
        demo = open(os.path.join(d, "demo.py")).read().replace(wt, d)
        open(os.path.join(d, "demo.py"), "w").write(demo)
        rc0, out0 = sh(["/venv/bin/python", "-W", "ignore", "demo.py"], cwd=d, env=env)
        meta["demo_exit_unchanged"] = rc0
        rc, out = sh(["patch", "-p1", "-s", "-i", os.path.join(src, "patch.diff")], cwd=d)
        if rc != 0:
            print("patch failed", out)
            return 2
        rc, out = sh(["/venv/bin/python", "-m", "pytest", "-q", "-p", "no:cacheprovider", "--timeout=900", "unit_tests"], cwd=d, env=env)
        m = re.search(r"(\d+) passed", out)
        f = re.search(r"(\d+) failed", out)
        meta["unit_tests_with_change"] = {"passed": int(m.group(1)) if m else 0, "failed": int(f.group(1)) if f else 0}
        rc1, out1 = sh(["/venv/bin/python", "-W", "ignore", "demo.py"], cwd=d, env=env)
        meta["demo_exit_changed"] = rc1
        meta["demo_output_changed"] = out1.strip().splitlines()[-3:]
        checks = {}
        for p in props:
            rc, out = sh([os.path.join(VERIF, "bin", "check"), p, tier], env={**os.environ, "VERIF_REPO": d, "VERIF_EVIDENCE_DIR": os.path.join(d, "evidence")})
            msg = ""
            for line in out.splitlines():
                if line.startswith("  "):
                    msg = line.strip()[:300]
            checks[p] = {"exit": rc, "caught": rc == 1 and f"VIOLATION property={p}" in out, "tier": tier, "message": msg}
        meta["checks"] = checks
        ok = rc0 == 0 and rc1 != 0 and meta["unit_tests_with_change"]["passed"] == 80
        meta["confirmed"] = ok
        notes = os.path.join(src, "notes.md")
        meta["needs_to_manifest"] = open(notes).read() if os.path.exists(notes) else ""
        meta["ran"] = [
            "demo.py on a scratch copy of the unchanged tree (exit %d)" % rc0,
            "patch -p1 < patch.diff; pytest unit_tests (%s)" % meta["unit_tests_with_change"],
            "demo.py on the changed copy (exit %d)" % rc1,
        ] + [f"VERIF_REPO=<changed copy> bin/check {p} {tier} -> exit {c['exit']}" for p, c in checks.items()]
        dest = os.path.join(VERIF, "seeded", name)
        os.makedirs(dest, exist_ok=True)
        shutil.copy(os.path.join(src, "patch.diff"), dest)
        shutil.copy(os.path.join(src, "demo.py"), dest)
        for h in helpers:
            shutil.copy(h, dest)
        json.dump(meta, open(os.path.join(dest, "meta.json"), "w"), indent=1)
        print(name, "confirmed" if ok else "NOT-CONFIRMED", {p: ("CAUGHT" if c["caught"] else f"missed(exit {c['exit']})") for p, c in checks.items()},
              f"demo {rc0}->{rc1}", meta["unit_tests_with_change"])
        return 0 if ok else 1
    finally:
        shutil.rmtree(d, ignore_errors=True)


if __name__ == "__main__":
    sys.exit(main())
